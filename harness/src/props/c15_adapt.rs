//! C15 helper: adaptors between the value vectors of the layout tables and the etherparse API
//! (struct construction + every encoder, every decoder / slice accessor, checked constructors).
//! No oracle logic in here: these functions only move values in and out of the crate.

use super::c15_layout::*;
use etherparse::err::{ValueTooBigError, ValueType};
use etherparse::igmp::{GroupAddress, MaxResponseCode, MembershipQueryWithSourcesHeader, Qrv};
use etherparse::*;
use std::io::Cursor;

// ------------------------------------------------------------------------------------------------
// checked constructors

pub struct CtorType {
    pub name: &'static str,
    /// width of the field on the wire (from the formats)
    pub bits: u32,
    /// width of the constructor's argument type
    pub domain_bits: u32,
    pub vt: ValueType,
}

pub const CTORS: [CtorType; 9] = [
    CtorType { name: "VlanId", bits: 12, domain_bits: 16, vt: ValueType::VlanId },
    CtorType { name: "VlanPcp", bits: 3, domain_bits: 8, vt: ValueType::VlanPcp },
    CtorType { name: "IpDscp", bits: 6, domain_bits: 8, vt: ValueType::IpDscp },
    CtorType { name: "IpEcn", bits: 2, domain_bits: 8, vt: ValueType::IpEcn },
    CtorType { name: "IpFragOffset", bits: 13, domain_bits: 16, vt: ValueType::IpFragmentOffset },
    CtorType { name: "Ipv6FlowLabel", bits: 20, domain_bits: 32, vt: ValueType::Ipv6FlowLabel },
    CtorType { name: "MacsecAn", bits: 2, domain_bits: 8, vt: ValueType::MacsecAn },
    CtorType { name: "MacsecShortLen", bits: 6, domain_bits: 8, vt: ValueType::MacsecShortLen },
    CtorType { name: "Qrv", bits: 3, domain_bits: 8, vt: ValueType::IgmpQrv },
];

pub enum CtorOut {
    Ok { value: u64, into: u64 },
    Err { actual: u64, max: u64, vt: ValueType },
}

macro_rules! paths {
    ($T:ty, $raw:ty, $v:expr, $name:literal, $try_new:expr) => {{
        let raw = $v as $raw;
        let conv = |r: Result<$T, ValueTooBigError<$raw>>| -> CtorOut {
            match r {
                Ok(x) => CtorOut::Ok { value: x.value() as u64, into: <$raw>::from(x) as u64 },
                Err(e) => CtorOut::Err { actual: e.actual as u64, max: e.max_allowed as u64, vt: e.value_type },
            }
        };
        let try_new: fn($raw) -> Result<$T, ValueTooBigError<$raw>> = $try_new;
        vec![($name, conv(try_new(raw))), ("TryFrom::try_from", conv(<$T as TryFrom<$raw>>::try_from(raw)))]
    }};
}

/// all checked construction paths of type `ty` (index into CTORS) applied to `v` (must fit the domain)
pub fn ctor_paths(ty: usize, v: u64) -> Vec<(&'static str, CtorOut)> {
    match ty {
        0 => paths!(VlanId, u16, v, "try_new", VlanId::try_new),
        1 => paths!(VlanPcp, u8, v, "try_new", VlanPcp::try_new),
        2 => paths!(IpDscp, u8, v, "try_new", IpDscp::try_new),
        3 => paths!(IpEcn, u8, v, "try_new", IpEcn::try_new),
        4 => paths!(IpFragOffset, u16, v, "try_new", IpFragOffset::try_new),
        5 => paths!(Ipv6FlowLabel, u32, v, "try_new", Ipv6FlowLabel::try_new),
        6 => paths!(MacsecAn, u8, v, "try_new", MacsecAn::try_new),
        7 => paths!(MacsecShortLen, u8, v, "try_from_u8", MacsecShortLen::try_from_u8),
        _ => paths!(Qrv, u8, v, "try_new", Qrv::try_new),
    }
}

/// documented constants: (type, constant name, value, kind) with kind "max" or "zero"
pub fn ctor_consts() -> Vec<(usize, &'static str, u64, &'static str)> {
    vec![
        (0, "VlanId::MAX_U16", VlanId::MAX_U16 as u64, "max"),
        (0, "VlanId::ZERO", VlanId::ZERO.value() as u64, "zero"),
        (0, "VlanId::default()", VlanId::default().value() as u64, "zero"),
        (1, "VlanPcp::MAX_U8", VlanPcp::MAX_U8 as u64, "max"),
        (1, "VlanPcp::ZERO", VlanPcp::ZERO.value() as u64, "zero"),
        (1, "VlanPcp::default()", VlanPcp::default().value() as u64, "zero"),
        (2, "IpDscp::MAX_U8", IpDscp::MAX_U8 as u64, "max"),
        (2, "IpDscp::MAX", IpDscp::MAX.value() as u64, "max"),
        (2, "IpDscp::ZERO", IpDscp::ZERO.value() as u64, "zero"),
        (2, "IpDscp::default()", IpDscp::default().value() as u64, "zero"),
        (3, "IpEcn::MAX_U8", IpEcn::MAX_U8 as u64, "max"),
        (3, "IpEcn::THREE", IpEcn::THREE.value() as u64, "max"),
        (3, "IpEcn::ZERO", IpEcn::ZERO.value() as u64, "zero"),
        (3, "IpEcn::default()", IpEcn::default().value() as u64, "zero"),
        (4, "IpFragOffset::MAX_U16", IpFragOffset::MAX_U16 as u64, "max"),
        (4, "IpFragOffset::ZERO", IpFragOffset::ZERO.value() as u64, "zero"),
        (4, "IpFragOffset::default()", IpFragOffset::default().value() as u64, "zero"),
        (5, "Ipv6FlowLabel::MAX_U32", Ipv6FlowLabel::MAX_U32 as u64, "max"),
        (5, "Ipv6FlowLabel::ZERO", Ipv6FlowLabel::ZERO.value() as u64, "zero"),
        (5, "Ipv6FlowLabel::default()", Ipv6FlowLabel::default().value() as u64, "zero"),
        (6, "MacsecAn::MAX_U8", MacsecAn::MAX_U8 as u64, "max"),
        (6, "MacsecAn::ZERO", MacsecAn::ZERO.value() as u64, "zero"),
        (6, "MacsecAn::default()", MacsecAn::default().value() as u64, "zero"),
        (7, "MacsecShortLen::MAX_U8", MacsecShortLen::MAX_U8 as u64, "max"),
        (7, "MacsecShortLen::MAX_USIZE", MacsecShortLen::MAX_USIZE as u64, "max"),
        (7, "MacsecShortLen::ZERO", MacsecShortLen::ZERO.value() as u64, "zero"),
        (7, "MacsecShortLen::default()", MacsecShortLen::default().value() as u64, "zero"),
        (8, "Qrv::MAX_U8", Qrv::MAX_U8 as u64, "max"),
        (8, "Qrv::MAX", Qrv::MAX.value() as u64, "max"),
        (8, "Qrv::ZERO", Qrv::ZERO.value() as u64, "zero"),
        (8, "Qrv::default()", Qrv::default().value() as u64, "zero"),
    ]
}

/// named DSCP code points with the values their RFCs assign (RFC 2474 class selectors CSn = n << 3,
/// RFC 2597 AFxy = 8x + 2y, RFC 3246 EF = 46, RFC 5865 VOICE-ADMIT = 44, RFC 8622 LE = 1)
pub fn dscp_named() -> Vec<(&'static str, u64, u64)> {
    vec![
        ("IpDscp::CS0", IpDscp::CS0.value() as u64, 0),
        ("IpDscp::CS1", IpDscp::CS1.value() as u64, 8),
        ("IpDscp::CS2", IpDscp::CS2.value() as u64, 16),
        ("IpDscp::CS3", IpDscp::CS3.value() as u64, 24),
        ("IpDscp::CS4", IpDscp::CS4.value() as u64, 32),
        ("IpDscp::CS5", IpDscp::CS5.value() as u64, 40),
        ("IpDscp::CS6", IpDscp::CS6.value() as u64, 48),
        ("IpDscp::CS7", IpDscp::CS7.value() as u64, 56),
        ("IpDscp::AF11", IpDscp::AF11.value() as u64, 10),
        ("IpDscp::AF12", IpDscp::AF12.value() as u64, 12),
        ("IpDscp::AF13", IpDscp::AF13.value() as u64, 14),
        ("IpDscp::AF21", IpDscp::AF21.value() as u64, 18),
        ("IpDscp::AF22", IpDscp::AF22.value() as u64, 20),
        ("IpDscp::AF23", IpDscp::AF23.value() as u64, 22),
        ("IpDscp::AF31", IpDscp::AF31.value() as u64, 26),
        ("IpDscp::AF32", IpDscp::AF32.value() as u64, 28),
        ("IpDscp::AF33", IpDscp::AF33.value() as u64, 30),
        ("IpDscp::AF41", IpDscp::AF41.value() as u64, 34),
        ("IpDscp::AF42", IpDscp::AF42.value() as u64, 36),
        ("IpDscp::AF43", IpDscp::AF43.value() as u64, 38),
        ("IpDscp::EF", IpDscp::EF.value() as u64, 46),
        ("IpDscp::VOICE_ADMIT", IpDscp::VOICE_ADMIT.value() as u64, 44),
        ("IpDscp::LOWER_EFFORT", IpDscp::LOWER_EFFORT.value() as u64, 1),
        ("IpEcn::ONE", IpEcn::ONE.value() as u64, 1),
        ("IpEcn::TWO", IpEcn::TWO.value() as u64, 2),
    ]
}

/// `IpDscpKnown` (the IANA registry as an enum) for the DSCP value `v` (0..=63): Ok((discriminant as u8,
/// value of `IpDscp::from(known)`)) or Err(value carried by the error)
pub fn dscp_known(v: u8) -> Result<(u64, u64), u64> {
    let d = IpDscp::try_new(v).expect("0..=63");
    match (IpDscpKnown::try_from_ip_dscp(d), IpDscpKnown::try_from(d)) {
        (Ok(k), Ok(k2)) if k == k2 => Ok((u8::from(k) as u64, IpDscp::from(k).value() as u64)),
        (Err(e), Err(e2)) if e == e2 => Err(e.value as u64),
        (a, b) => panic!("IpDscpKnown::try_from_ip_dscp and TryFrom disagree for {}: {:?} / {:?}", v, a, b),
    }
}

/// `Qrv::VALUES` ("static array with all possible values") as numbers
pub fn qrv_values() -> Vec<u64> {
    Qrv::VALUES.iter().map(|q| q.value() as u64).collect()
}

/// RFC 3168 names of the ECN code points as produced by `IpEcn::try_new`
pub fn ecn_variant_name(v: u8) -> Option<&'static str> {
    IpEcn::try_new(v).ok().map(|e| match e {
        IpEcn::NotEct => "NotEct",
        IpEcn::Ect1 => "Ect1",
        IpEcn::Ect0 => "Ect0",
        IpEcn::CongestionExperienced => "CongestionExperienced",
    })
}

pub fn short_len_from_len(len: usize) -> u64 {
    MacsecShortLen::from_len(len).value() as u64
}

// ------------------------------------------------------------------------------------------------
// struct construction from value vectors (bounded values go through the checked constructors)

fn b32(v: u128) -> [u8; 4] {
    (v as u32).to_be_bytes()
}

pub fn vlan_build(v: &[u128]) -> SingleVlanHeader {
    SingleVlanHeader {
        pcp: VlanPcp::try_new(v[0] as u8).unwrap(),
        drop_eligible_indicator: v[1] != 0,
        vlan_id: VlanId::try_new(v[2] as u16).unwrap(),
        ether_type: EtherType(v[3] as u16),
    }
}

pub fn ipv4_build(shape: usize, v: &[u128]) -> Ipv4Header {
    let mut opts: Vec<u8> = vec![];
    for i in 0..shape {
        opts.extend_from_slice(&b32(v[IPV4_OPT0 + i]));
    }
    Ipv4Header {
        dscp: IpDscp::try_new(v[2] as u8).unwrap(),
        ecn: IpEcn::try_new(v[3] as u8).unwrap(),
        total_len: v[4] as u16,
        identification: v[5] as u16,
        dont_fragment: v[7] != 0,
        more_fragments: v[8] != 0,
        fragment_offset: IpFragOffset::try_new(v[9] as u16).unwrap(),
        time_to_live: v[10] as u8,
        protocol: IpNumber(v[11] as u8),
        header_checksum: v[12] as u16,
        source: b32(v[13]),
        destination: b32(v[14]),
        options: Ipv4Options::try_from(&opts[..]).unwrap(),
    }
}

pub fn ipv6_build(v: &[u128]) -> Ipv6Header {
    Ipv6Header {
        // the traffic class octet is DSCP (upper six bits, RFC 2474) + ECN (lower two, RFC 3168)
        traffic_class: ((v[1] as u8) << 2) | v[2] as u8,
        flow_label: Ipv6FlowLabel::try_new(v[3] as u32).unwrap(),
        payload_length: v[4] as u16,
        next_header: IpNumber(v[5] as u8),
        hop_limit: v[6] as u8,
        source: v[7].to_be_bytes(),
        destination: v[8].to_be_bytes(),
    }
}

pub fn frag_build(v: &[u128]) -> Ipv6FragmentHeader {
    Ipv6FragmentHeader {
        next_header: IpNumber(v[0] as u8),
        fragment_offset: IpFragOffset::try_new(v[2] as u16).unwrap(),
        more_fragments: v[4] != 0,
        identification: v[5] as u32,
    }
}

pub fn macsec_build(shape: usize, v: &[u128]) -> MacsecHeader {
    let (e, c, sc) = macsec_shape_bits(shape);
    let t = table(Hdr::Macsec, shape);
    let et = field_index(t, "next_ether_type").map(|i| v[i] as u16);
    let sci = field_index(t, "sci").map(|i| v[i] as u64);
    assert_eq!(sci.is_some(), sc);
    MacsecHeader {
        ptype: match (e, c) {
            (false, false) => MacsecPType::Unmodified(EtherType(et.unwrap())),
            (false, true) => MacsecPType::Modified,
            (true, false) => MacsecPType::EncryptedUnmodified,
            (true, true) => MacsecPType::Encrypted,
        },
        endstation_id: v[1] != 0,
        scb: v[3] != 0,
        an: MacsecAn::try_new(v[6] as u8).unwrap(),
        short_len: MacsecShortLen::try_from_u8(v[8] as u8).unwrap(),
        packet_nr: v[9] as u32,
        sci,
    }
}

/// the raw byte 8 is only reachable through its setters: start from `start` and set every part
pub fn igmp_build(v: &[u128], start: u8, reverse: bool) -> IgmpHeader {
    let mut q = MembershipQueryWithSourcesHeader {
        max_response_code: MaxResponseCode(v[1] as u8),
        group_address: GroupAddress::new(b32(v[3])),
        raw_byte_8: start,
        qqic: v[7] as u8,
        num_of_sources: v[8] as u16,
    };
    if reverse {
        q.set_qrv(Qrv::try_new(v[6] as u8).unwrap());
        q.set_s_flag(v[5] != 0);
        q.set_flags(v[4] as u8);
    } else {
        q.set_flags(v[4] as u8);
        q.set_s_flag(v[5] != 0);
        q.set_qrv(Qrv::try_new(v[6] as u8).unwrap());
    }
    IgmpHeader { igmp_type: IgmpType::MembershipQueryWithSources(q), checksum: v[2] as u16 }
}

// ------------------------------------------------------------------------------------------------
// encoders

/// (entry point, encoder, index of a field the encoder computes itself and that is therefore
/// excluded from the comparison through its table mask)
pub type Encoder = (&'static str, fn(usize, &[u128]) -> Vec<u8>, Option<usize>);

fn w<E: std::fmt::Debug>(r: Result<(), E>, v: Vec<u8>) -> Vec<u8> {
    r.expect("write into Vec failed");
    v
}

pub fn encoders(h: Hdr) -> &'static [Encoder] {
    match h {
        Hdr::Vlan => &[
            ("SingleVlanHeader::to_bytes", |_, v| vlan_build(v).to_bytes().to_vec(), None),
            (
                "SingleVlanHeader::write",
                |_, v| {
                    let mut o = vec![];
                    let r = vlan_build(v).write(&mut o);
                    w(r, o)
                },
                None,
            ),
        ],
        Hdr::Ipv4 => &[
            ("Ipv4Header::to_bytes", |s, v| ipv4_build(s, v).to_bytes().to_vec(), None),
            (
                "Ipv4Header::write_raw",
                |s, v| {
                    let mut o = vec![];
                    let r = ipv4_build(s, v).write_raw(&mut o);
                    w(r, o)
                },
                None,
            ),
            (
                "Ipv4Header::write",
                |s, v| {
                    let mut o = vec![];
                    let r = ipv4_build(s, v).write(&mut o);
                    w(r, o)
                },
                Some(IPV4_CSUM),
            ),
        ],
        Hdr::Ipv6 => &[
            ("Ipv6Header::to_bytes", |_, v| ipv6_build(v).to_bytes().to_vec(), None),
            (
                "Ipv6Header::write",
                |_, v| {
                    let mut o = vec![];
                    let r = ipv6_build(v).write(&mut o);
                    w(r, o)
                },
                None,
            ),
            (
                "Ipv6Header::set_dscp+set_ecn+to_bytes",
                |_, v| {
                    // start from the complement of the wanted traffic class, then use the setters
                    let mut h = ipv6_build(v);
                    h.traffic_class = !h.traffic_class;
                    h.set_dscp(IpDscp::try_new(v[1] as u8).unwrap());
                    h.set_ecn(IpEcn::try_new(v[2] as u8).unwrap());
                    h.to_bytes().to_vec()
                },
                None,
            ),
            (
                "Ipv6Header::set_ecn+set_dscp+to_bytes",
                |_, v| {
                    let mut h = ipv6_build(v);
                    h.traffic_class = 0xa5;
                    h.set_ecn(IpEcn::try_new(v[2] as u8).unwrap());
                    h.set_dscp(IpDscp::try_new(v[1] as u8).unwrap());
                    h.to_bytes().to_vec()
                },
                None,
            ),
        ],
        Hdr::Frag => &[
            ("Ipv6FragmentHeader::to_bytes", |_, v| frag_build(v).to_bytes().to_vec(), None),
            (
                "Ipv6FragmentHeader::write",
                |_, v| {
                    let mut o = vec![];
                    let r = frag_build(v).write(&mut o);
                    w(r, o)
                },
                None,
            ),
            (
                "Ipv6FragmentHeader::new+to_bytes",
                |_, v| {
                    let f = frag_build(v);
                    Ipv6FragmentHeader::new(f.next_header, f.fragment_offset, f.more_fragments, f.identification).to_bytes().to_vec()
                },
                None,
            ),
        ],
        Hdr::Macsec => &[
            ("MacsecHeader::to_bytes", |s, v| macsec_build(s, v).to_bytes().to_vec(), None),
            (
                "MacsecHeader::write",
                |s, v| {
                    let mut o = vec![];
                    let r = macsec_build(s, v).write(&mut o);
                    w(r, o)
                },
                None,
            ),
        ],
        Hdr::Igmp => &[
            ("IgmpHeader::to_bytes(setters from 0x00)", |_, v| igmp_build(v, 0x00, false).to_bytes().to_vec(), None),
            ("IgmpHeader::to_bytes(setters from 0xff, reversed)", |_, v| igmp_build(v, 0xff, true).to_bytes().to_vec(), None),
        ],
    }
}

// ------------------------------------------------------------------------------------------------
// decoders: None = the crate returned an error; otherwise (shape, value per table entry or None
// when the decoder does not expose the field)

pub type DecOut = Option<(usize, Vec<Option<u128>>)>;
pub type Decoder = (&'static str, fn(&[u8]) -> DecOut);

fn s<T: Into<u128>>(x: T) -> Option<u128> {
    Some(x.into())
}
fn sb(x: bool) -> Option<u128> {
    Some(x as u128)
}
fn u32be(x: [u8; 4]) -> Option<u128> {
    Some(u32::from_be_bytes(x) as u128)
}

fn vlan_vals(h: &SingleVlanHeader) -> DecOut {
    Some((0, vec![s(h.pcp.value()), sb(h.drop_eligible_indicator), s(h.vlan_id.value()), s(h.ether_type.0)]))
}

fn ipv4_vals(h: &Ipv4Header) -> DecOut {
    let shape = h.options.len() / 4;
    let mut v = vec![
        None,
        s(h.ihl()),
        s(h.dscp.value()),
        s(h.ecn.value()),
        s(h.total_len),
        s(h.identification),
        None,
        sb(h.dont_fragment),
        sb(h.more_fragments),
        s(h.fragment_offset.value()),
        s(h.time_to_live),
        s(h.protocol.0),
        s(h.header_checksum),
        u32be(h.source),
        u32be(h.destination),
    ];
    for c in h.options.as_slice().chunks(4) {
        v.push(u32be([c[0], c[1], c[2], c[3]]));
    }
    Some((shape, v))
}

fn ipv6_vals(h: &Ipv6Header) -> DecOut {
    Some((
        0,
        vec![
            None,
            s(h.dscp().value()),
            s(h.ecn().value()),
            s(h.flow_label.value()),
            s(h.payload_length),
            s(h.next_header.0),
            s(h.hop_limit),
            Some(u128::from_be_bytes(h.source)),
            Some(u128::from_be_bytes(h.destination)),
            s(h.traffic_class),
        ],
    ))
}

fn frag_vals(h: &Ipv6FragmentHeader) -> DecOut {
    Some((0, vec![s(h.next_header.0), None, s(h.fragment_offset.value()), None, sb(h.more_fragments), s(h.identification)]))
}

fn macsec_vals(h: &MacsecHeader) -> DecOut {
    let e = h.encrypted();
    let c = h.userdata_changed();
    // shape from the stored representation (ptype variant, sci option); E/C values from the getters
    let (pe, pc, et) = match h.ptype {
        MacsecPType::Unmodified(t) => (false, false, Some(t.0)),
        MacsecPType::Modified => (false, true, None),
        MacsecPType::EncryptedUnmodified => (true, false, None),
        MacsecPType::Encrypted => (true, true, None),
    };
    let shape = macsec_shape(pe, pc, h.sci.is_some());
    let mut v = vec![None, sb(h.endstation_id), sb(h.sci.is_some()), sb(h.scb), sb(e), sb(c), s(h.an.value()), None, s(h.short_len.value()), s(h.packet_nr)];
    if let Some(x) = h.sci {
        v.push(s(x));
    }
    if let Some(t) = et {
        v.push(s(t));
    }
    v.push(None); // tci_an_raw is not stored
    Some((shape, v))
}

fn igmp_vals(h: &IgmpHeader) -> DecOut {
    match &h.igmp_type {
        IgmpType::MembershipQueryWithSources(q) => Some((
            0,
            vec![
                None,
                s(q.max_response_code.0),
                s(h.checksum),
                u32be(q.group_address.octets),
                s(q.flags()),
                sb(q.s_flag()),
                s(q.qrv().value()),
                s(q.qqic),
                s(q.num_of_sources),
                s(q.raw_byte_8),
            ],
        )),
        // decoded as something else: report as "not decodable as an IGMPv3 query"
        _ => None,
    }
}

pub fn decoders(h: Hdr) -> &'static [Decoder] {
    match h {
        Hdr::Vlan => &[
            ("SingleVlanHeader::from_bytes", |b| vlan_vals(&SingleVlanHeader::from_bytes([b[0], b[1], b[2], b[3]]))),
            ("SingleVlanHeader::from_slice", |b| SingleVlanHeader::from_slice(b).ok().and_then(|(h, _)| vlan_vals(&h))),
            ("SingleVlanHeader::read", |b| SingleVlanHeader::read(&mut Cursor::new(b)).ok().and_then(|h| vlan_vals(&h))),
            ("SingleVlanHeaderSlice accessors", |b| {
                let x = SingleVlanHeaderSlice::from_slice(b).ok()?;
                Some((0, vec![s(x.priority_code_point().value()), sb(x.drop_eligible_indicator()), s(x.vlan_identifier().value()), s(x.ether_type().0)]))
            }),
            ("SingleVlanSlice accessors", |b| {
                let x = SingleVlanSlice::from_slice(b).ok()?;
                Some((0, vec![s(x.priority_code_point().value()), sb(x.drop_eligible_indicator()), s(x.vlan_identifier().value()), s(x.ether_type().0)]))
            }),
            ("SingleVlanSlice::to_header", |b| SingleVlanSlice::from_slice(b).ok().and_then(|x| vlan_vals(&x.to_header()))),
        ],
        Hdr::Ipv4 => &[
            ("Ipv4Header::from_slice", |b| Ipv4Header::from_slice(b).ok().and_then(|(h, _)| ipv4_vals(&h))),
            ("Ipv4Header::read", |b| Ipv4Header::read(&mut Cursor::new(b)).ok().and_then(|h| ipv4_vals(&h))),
            ("Ipv4HeaderSlice accessors", |b| {
                let x = Ipv4HeaderSlice::from_slice(b).ok()?;
                let shape = x.options().len() / 4;
                let mut v = vec![
                    s(x.version()),
                    s(x.ihl()),
                    s(x.dcp().value()),
                    s(x.ecn().value()),
                    s(x.total_len()),
                    s(x.identification()),
                    None,
                    sb(x.dont_fragment()),
                    sb(x.more_fragments()),
                    s(x.fragments_offset().value()),
                    s(x.ttl()),
                    s(x.protocol().0),
                    s(x.header_checksum()),
                    u32be(x.source()),
                    u32be(x.destination()),
                ];
                for c in x.options().chunks(4) {
                    v.push(u32be([c[0], c[1], c[2], c[3]]));
                }
                Some((shape, v))
            }),
        ],
        Hdr::Ipv6 => &[
            ("Ipv6Header::from_slice", |b| Ipv6Header::from_slice(b).ok().and_then(|(h, _)| ipv6_vals(&h))),
            ("Ipv6Header::read", |b| Ipv6Header::read(&mut Cursor::new(b)).ok().and_then(|h| ipv6_vals(&h))),
            ("Ipv6HeaderSlice accessors", |b| {
                let x = Ipv6HeaderSlice::from_slice(b).ok()?;
                Some((
                    0,
                    vec![
                        s(x.version()),
                        s(x.dscp().value()),
                        s(x.ecn().value()),
                        s(x.flow_label().value()),
                        s(x.payload_length()),
                        s(x.next_header().0),
                        s(x.hop_limit()),
                        Some(u128::from_be_bytes(x.source())),
                        Some(u128::from_be_bytes(x.destination())),
                        s(x.traffic_class()),
                    ],
                ))
            }),
        ],
        Hdr::Frag => &[
            ("Ipv6FragmentHeader::from_slice", |b| Ipv6FragmentHeader::from_slice(b).ok().and_then(|(h, _)| frag_vals(&h))),
            ("Ipv6FragmentHeader::read", |b| Ipv6FragmentHeader::read(&mut Cursor::new(b)).ok().and_then(|h| frag_vals(&h))),
            ("Ipv6FragmentHeaderSlice accessors", |b| {
                let x = Ipv6FragmentHeaderSlice::from_slice(b).ok()?;
                Some((0, vec![s(x.next_header().0), None, s(x.fragment_offset().value()), None, sb(x.more_fragments()), s(x.identification())]))
            }),
        ],
        Hdr::Macsec => &[
            ("MacsecHeader::from_slice", |b| MacsecHeader::from_slice(b).ok().and_then(|h| macsec_vals(&h))),
            ("MacsecHeader::read", |b| MacsecHeader::read(&mut Cursor::new(b)).ok().and_then(|h| macsec_vals(&h))),
            ("MacsecHeaderSlice accessors", |b| {
                let x = MacsecHeaderSlice::from_slice(b).ok()?;
                // shape from ptype()/sci(), flag values from the flag accessors
                let (pe, pc) = match x.ptype() {
                    MacsecPType::Unmodified(_) => (false, false),
                    MacsecPType::Modified => (false, true),
                    MacsecPType::EncryptedUnmodified => (true, false),
                    MacsecPType::Encrypted => (true, true),
                };
                let shape = macsec_shape(pe, pc, x.sci().is_some());
                let mut v = vec![
                    None,
                    sb(x.endstation_id()),
                    sb(x.sci_present()),
                    sb(x.tci_scb()),
                    sb(x.encrypted()),
                    sb(x.userdata_changed()),
                    s(x.an().value()),
                    None,
                    s(x.short_len().value()),
                    s(x.packet_nr()),
                ];
                if let Some(sci) = x.sci() {
                    v.push(s(sci));
                }
                if let MacsecPType::Unmodified(t) = x.ptype() {
                    // both views of the next ether type have to agree
                    if x.next_ether_type() != Some(t) {
                        return Some((usize::MAX, vec![]));
                    }
                    v.push(s(t.0));
                }
                v.push(s(x.tci_an_raw()));
                Some((shape, v))
            }),
        ],
        Hdr::Igmp => &[("IgmpHeader::from_slice", |b| IgmpHeader::from_slice(b).ok().and_then(|(h, _)| igmp_vals(&h)))],
    }
}

// ------------------------------------------------------------------------------------------------
// setters: apply setter `which` to a header built from `vals`, return (bytes before, bytes after)

pub const SETTERS: [&str; 8] = [
    "Ipv6Header::set_dscp",
    "Ipv6Header::set_ecn",
    "MembershipQueryWithSourcesHeader::set_flags",
    "MembershipQueryWithSourcesHeader::set_s_flag",
    "MembershipQueryWithSourcesHeader::set_qrv",
    "MacsecHeader::set_payload_len",
    "Ipv4Header::set_payload_len",
    "Ipv6Header::set_payload_length",
];

pub fn setter_header(which: usize) -> Hdr {
    match which {
        0 | 1 | 7 => Hdr::Ipv6,
        2..=4 => Hdr::Igmp,
        5 => Hdr::Macsec,
        _ => Hdr::Ipv4,
    }
}

/// Returns (before, after, setter returned Ok?)
pub fn apply_setter(which: usize, shape: usize, vals: &[u128], arg: u64) -> (Vec<u8>, Vec<u8>, bool) {
    match which {
        0 | 1 | 7 => {
            let mut h = ipv6_build(vals);
            let before = h.to_bytes().to_vec();
            let mut ok = true;
            match which {
                0 => h.set_dscp(IpDscp::try_new(arg as u8).unwrap()),
                1 => h.set_ecn(IpEcn::try_new(arg as u8).unwrap()),
                _ => ok = h.set_payload_length(arg as usize).is_ok(),
            }
            (before, h.to_bytes().to_vec(), ok)
        }
        2..=4 => {
            let IgmpHeader { igmp_type: IgmpType::MembershipQueryWithSources(mut q), checksum } = igmp_build(vals, 0, false) else { unreachable!() };
            let before = IgmpHeader { igmp_type: IgmpType::MembershipQueryWithSources(q.clone()), checksum }.to_bytes().to_vec();
            match which {
                2 => q.set_flags(arg as u8),
                3 => q.set_s_flag(arg != 0),
                _ => q.set_qrv(Qrv::try_new(arg as u8).unwrap()),
            }
            (before, IgmpHeader { igmp_type: IgmpType::MembershipQueryWithSources(q), checksum }.to_bytes().to_vec(), true)
        }
        5 => {
            let mut h = macsec_build(shape, vals);
            let before = h.to_bytes().to_vec();
            h.set_payload_len(arg as usize);
            (before, h.to_bytes().to_vec(), true)
        }
        _ => {
            let mut h = ipv4_build(shape, vals);
            let before = h.to_bytes().to_vec();
            let ok = h.set_payload_len(arg as usize).is_ok();
            (before, h.to_bytes().to_vec(), ok)
        }
    }
}
