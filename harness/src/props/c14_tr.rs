//! C14 handlers: UDP / TCP / ICMPv6 length checks in constructors and checksum calculations.

use super::c14::*;
use super::c14_mem::{finish, mem, sum_bytes};
use super::c14_net::{v4_header, v6_header, DST4, DST6, SRC4, SRC6};
use crate::engine::*;
use etherparse::err::packet::TransportChecksumError;
use etherparse::err::{ValueTooBigError, ValueType};
use etherparse::*;

/// pseudo header sums (RFC 768 / 9293 for IPv4, RFC 8200 8.1 for IPv6)
fn pseudo4(proto: u8, upper_len: u64) -> u64 {
    sum_bytes(&SRC4) + sum_bytes(&DST4) + u64::from(proto) + (upper_len & 0xffff)
}
fn pseudo6(proto: u8, upper_len: u64) -> u64 {
    sum_bytes(&SRC6) + sum_bytes(&DST6) + (upper_len >> 16 & 0xffff) + (upper_len & 0xffff) + u64::from(proto)
}

fn raw_v4_header_bytes() -> [u8; 20] {
    let mut b = [0u8; 20];
    b[0] = 0x45;
    b[3] = 20;
    b[8] = 9;
    b[9] = 6;
    b[12..16].copy_from_slice(&SRC4);
    b[16..20].copy_from_slice(&DST4);
    b
}
fn raw_v6_header_bytes() -> [u8; 40] {
    let mut b = [0u8; 40];
    b[0] = 0x60;
    b[6] = 6;
    b[7] = 9;
    b[8..24].copy_from_slice(&SRC6);
    b[24..40].copy_from_slice(&DST6);
    b
}

/// checks shared by all "returns Result<u16, ValueTooBigError>" checksum functions
fn judge_ck(k: &K, ctx: &mut Ctx, field: &str, r: Result<u16, ValueTooBigError<usize>>, want: Option<u16>, vts: &[ValueType]) -> Result<(), Failure> {
    let l = lim(k.api, k.cfg);
    match r {
        Ok(c) => {
            verdict(k, ctx, field, &l, true, None, &[])?;
            if let Some(w) = want {
                if l.ok(k.len) {
                    expect_eq(k, ctx, field, "encoded-field", c, w)?;
                }
            }
        }
        Err(e) => verdict(k, ctx, field, &l, false, Some(vtb(&e)), vts)?,
    }
    Ok(())
}

// ------------------------------------------------------------------------------------------------

pub(super) fn run_udp(k: &K, ctx: &mut Ctx) -> Result<(), Failure> {
    use Api::*;
    let l = lim(k.api, k.cfg);
    let sp = (k.cfg >> 16) as u16 ^ 0x1f90;
    let dp = k.cfg as u16 ^ 0x0035;
    let m = mem();
    let psum = m.payload_sum(k.usize());
    // the length field a correct header for this payload carries (if it fits)
    let fits16 = UDP_HDR + k.len <= F16;
    let len_field = if fits16 { (UDP_HDR + k.len) as u16 } else { 0x4321 };
    let udp_ck = |pseudo: u64, lf: u16| -> u16 {
        let c = finish(pseudo + u64::from(sp) + u64::from(dp) + u64::from(lf) + psum);
        if c == 0 {
            0xffff
        } else {
            c
        }
    };
    let ref4 = udp_ck(pseudo4(17, u64::from(len_field)), len_field);
    let ref6 = udp_ck(pseudo6(17, u64::from(len_field)), len_field);
    let v4 = [ValueType::UdpPayloadLengthIpv4];
    let v6 = [ValueType::UdpPayloadLengthIpv6];
    let ip4 = v4_header(0, k.cfg);
    let ip6 = v6_header(k.cfg);

    let check_hdr = |ctx: &mut Ctx, h: &UdpHeader, ck: Option<u16>| -> Result<(), Failure> {
        let b = h.to_bytes();
        expect_eq(k, ctx, "udp.length", "encoded-field", be16(&b, 4), UDP_HDR + k.len)?;
        expect_eq(k, ctx, "udp.ports", "encoded-other", (be16(&b, 0), be16(&b, 2)), (u64::from(sp), u64::from(dp)))?;
        if let Some(c) = ck {
            expect_eq(k, ctx, "udp.checksum", "encoded-field", be16(&b, 6), u64::from(c))?;
        }
        Ok(())
    };

    match k.api {
        UdpWithout => match UdpHeader::without_ipv4_checksum(sp, dp, k.usize()) {
            Ok(h) => {
                verdict(k, ctx, "udp.length", &l, true, None, &[])?;
                check_hdr(ctx, &h, Some(0))?;
            }
            Err(e) => verdict(k, ctx, "udp.length", &l, false, Some(vtb(&e)), &v4)?,
        },
        UdpWithV4 => match UdpHeader::with_ipv4_checksum(sp, dp, &ip4, k.payload()) {
            Ok(h) => {
                verdict(k, ctx, "udp.length", &l, true, None, &[])?;
                check_hdr(ctx, &h, if l.ok(k.len) { Some(ref4) } else { None })?;
            }
            Err(e) => verdict(k, ctx, "udp.length", &l, false, Some(vtb(&e)), &v4)?,
        },
        UdpWithV6 => match UdpHeader::with_ipv6_checksum(sp, dp, &ip6, k.payload()) {
            Ok(h) => {
                verdict(k, ctx, "udp.length", &l, true, None, &[])?;
                check_hdr(ctx, &h, if l.ok(k.len) { Some(ref6) } else { None })?;
            }
            Err(e) => verdict(k, ctx, "udp.length", &l, false, Some(vtb(&e)), &v6)?,
        },
        UdpCalcV4 | UdpCalcV4Raw | UdpCalcV6 | UdpCalcV6Raw => {
            let h = UdpHeader { source_port: sp, destination_port: dp, length: len_field, checksum: 0x7777 };
            let (r, want, vts) = match k.api {
                UdpCalcV4 => (h.calc_checksum_ipv4(&ip4, k.payload()), ref4, &v4),
                UdpCalcV4Raw => (h.calc_checksum_ipv4_raw(SRC4, DST4, k.payload()), ref4, &v4),
                UdpCalcV6 => (h.calc_checksum_ipv6(&ip6, k.payload()), ref6, &v6),
                _ => (h.calc_checksum_ipv6_raw(SRC6, DST6, k.payload()), ref6, &v6),
            };
            // value comparable only while the header's own 16 bit length describes the payload
            judge_ck(k, ctx, "udp.pseudo_len", r, if fits16 { Some(want) } else { None }, vts)?;
        }
        ThUdpV4 | ThUdpV6 => {
            let h = UdpHeader { source_port: sp, destination_port: dp, length: len_field, checksum: 0x7777 };
            let mut t = TransportHeader::Udp(h.clone());
            let (accepted, err) = if k.api == ThUdpV4 {
                match t.update_checksum_ipv4(&ip4, k.payload()) {
                    Ok(()) => (true, None),
                    Err(TransportChecksumError::PayloadLen(e)) => (false, Some(vtb(&e))),
                    Err(e) => return ctx.fail(k.failure("udp.pseudo_len", "unexpected-error", l.shape(k.len), format!("{:?}", e))),
                }
            } else {
                match t.update_checksum_ipv6(&ip6, k.payload()) {
                    Ok(()) => (true, None),
                    Err(e) => (false, Some(vtb(&e))),
                }
            };
            verdict(k, ctx, "udp.pseudo_len", &l, accepted, err, if k.api == ThUdpV4 { &v4 } else { &v6 })?;
            if accepted {
                if fits16 && l.ok(k.len) {
                    let want = UdpHeader { checksum: if k.api == ThUdpV4 { ref4 } else { ref6 }, ..h };
                    expect_eq(k, ctx, "udp.checksum", "encoded-field", t, TransportHeader::Udp(want))?;
                }
            } else {
                expect_eq(k, ctx, "udp", "unchanged-on-reject", t, TransportHeader::Udp(h))?;
            }
        }
        _ => unreachable!(),
    }
    Ok(())
}

// ------------------------------------------------------------------------------------------------

fn tcp_header(k: &K) -> TcpHeader {
    let ol = cfg_ol(k.cfg) as usize;
    let mut h = TcpHeader::new((k.cfg >> 16) as u16 ^ 0x01bb, k.cfg as u16 ^ 0xc001, 0x0102_0304 ^ (k.cfg as u32), 0x2000);
    h.acknowledgment_number = 0xa1b2_c3d4;
    h.ack = true;
    h.psh = k.cfg & 0x100 != 0;
    h.urgent_pointer = 7;
    h.checksum = 0x5555;
    h.options = TcpOptions::try_from_slice(mem().pattern_at(200, ol)).expect("C14 setup: TCP options of a valid length");
    h
}

pub(super) fn run_tcp(k: &K, ctx: &mut Ctx) -> Result<(), Failure> {
    use Api::*;
    let l = lim(k.api, k.cfg);
    let m = mem();
    let ol = cfg_ol(k.cfg);
    let hl = TCP_BASE + ol;
    let h = tcp_header(k);
    let hb = h.to_bytes();
    expect_eq(k, ctx, "tcp.header", "setup", hb.len() as u64, hl)?;
    // header sum with the checksum field zeroed
    let hsum = sum_bytes(&hb[..16]) + sum_bytes(&hb[18..]);
    let psum = m.payload_sum(k.usize());
    let ref4 = finish(pseudo4(6, hl + k.len) + hsum + psum);
    let ref6 = finish(pseudo6(6, hl + k.len) + hsum + psum);
    let v4 = [ValueType::TcpPayloadLengthIpv4];
    let v6 = [ValueType::TcpPayloadLengthIpv6];
    let is_v4 = matches!(k.api, TcpCalcV4 | TcpCalcV4Raw | TcpHsCalcV4 | TcpHsCalcV4Raw | TcpSlCalcV4 | ThTcpV4);
    let (want, vts) = if is_v4 { (ref4, &v4) } else { (ref6, &v6) };
    let field = "tcp.pseudo_len";
    let ip4 = v4_header(0, k.cfg);
    let ip6 = v6_header(k.cfg);

    match k.api {
        TcpCalcV4 => judge_ck(k, ctx, field, h.calc_checksum_ipv4(&ip4, k.payload()), Some(want), vts)?,
        TcpCalcV4Raw => judge_ck(k, ctx, field, h.calc_checksum_ipv4_raw(SRC4, DST4, k.payload()), Some(want), vts)?,
        TcpCalcV6 => judge_ck(k, ctx, field, h.calc_checksum_ipv6(&ip6, k.payload()), Some(want), vts)?,
        TcpCalcV6Raw => judge_ck(k, ctx, field, h.calc_checksum_ipv6_raw(SRC6, DST6, k.payload()), Some(want), vts)?,
        TcpHsCalcV4 | TcpHsCalcV4Raw | TcpHsCalcV6 | TcpHsCalcV6Raw => {
            let hs = TcpHeaderSlice::from_slice(&hb).expect("C14 setup: TcpHeaderSlice");
            let r = match k.api {
                TcpHsCalcV4 => {
                    let raw = raw_v4_header_bytes();
                    let ips = Ipv4HeaderSlice::from_slice(&raw).expect("C14 setup: Ipv4HeaderSlice");
                    hs.calc_checksum_ipv4(&ips, k.payload())
                }
                TcpHsCalcV4Raw => hs.calc_checksum_ipv4_raw(SRC4, DST4, k.payload()),
                TcpHsCalcV6 => {
                    let raw = raw_v6_header_bytes();
                    let ips = Ipv6HeaderSlice::from_slice(&raw).expect("C14 setup: Ipv6HeaderSlice");
                    hs.calc_checksum_ipv6(&ips, k.payload())
                }
                _ => hs.calc_checksum_ipv6_raw(SRC6, DST6, k.payload()),
            };
            judge_ck(k, ctx, field, r, Some(want), vts)?;
        }
        TcpSlCalcV4 | TcpSlCalcV6 => {
            // header and payload in one slice
            let owned: Vec<u8>;
            let data: &[u8] = if m.is_pattern(k.usize()) {
                let mut v = Vec::with_capacity(hb.len() + k.usize());
                v.extend_from_slice(&hb);
                v.extend_from_slice(k.payload());
                owned = v;
                &owned
            } else {
                m.hdr_then_zeros(&hb, k.usize())
            };
            let s = TcpSlice::from_slice(data).expect("C14 setup: TcpSlice");
            let r = if k.api == TcpSlCalcV4 { s.calc_checksum_ipv4(SRC4, DST4) } else { s.calc_checksum_ipv6(SRC6, DST6) };
            judge_ck(k, ctx, field, r, Some(want), vts)?;
        }
        ThTcpV4 | ThTcpV6 => {
            let mut t = TransportHeader::Tcp(h.clone());
            let (accepted, err) = if k.api == ThTcpV4 {
                match t.update_checksum_ipv4(&ip4, k.payload()) {
                    Ok(()) => (true, None),
                    Err(TransportChecksumError::PayloadLen(e)) => (false, Some(vtb(&e))),
                    Err(e) => return ctx.fail(k.failure(field, "unexpected-error", l.shape(k.len), format!("{:?}", e))),
                }
            } else {
                match t.update_checksum_ipv6(&ip6, k.payload()) {
                    Ok(()) => (true, None),
                    Err(e) => (false, Some(vtb(&e))),
                }
            };
            verdict(k, ctx, field, &l, accepted, err, vts)?;
            if accepted {
                if l.ok(k.len) {
                    let mut w = h.clone();
                    w.checksum = want;
                    expect_eq(k, ctx, "tcp.checksum", "encoded-field", t, TransportHeader::Tcp(w))?;
                }
            } else {
                expect_eq(k, ctx, "tcp", "unchanged-on-reject", t, TransportHeader::Tcp(h))?;
            }
        }
        _ => unreachable!(),
    }
    Ok(())
}

// ------------------------------------------------------------------------------------------------

/// ICMPv6 types whose 8 header bytes are written down here from RFC 4443
fn icmp6_type(cfg: u64) -> (Icmpv6Type, [u8; 8]) {
    let id = (cfg >> 8) as u16 ^ 0x0bad;
    let seq = (cfg >> 16) as u16 ^ 0x0042;
    let (i, s) = (id.to_be_bytes(), seq.to_be_bytes());
    match cfg % 4 {
        0 => (Icmpv6Type::EchoRequest(IcmpEchoHeader { id, seq }), [128, 0, 0, 0, i[0], i[1], s[0], s[1]]),
        1 => (Icmpv6Type::EchoReply(IcmpEchoHeader { id, seq }), [129, 0, 0, 0, i[0], i[1], s[0], s[1]]),
        2 => (Icmpv6Type::PacketTooBig { mtu: 0x0001_0500 }, [2, 0, 0, 0, 0, 1, 5, 0]),
        _ => (Icmpv6Type::Unknown { type_u8: 200, code_u8: 3, bytes5to8: [i[0], s[1], 9, 1] }, [200, 3, 0, 0, i[0], s[1], 9, 1]),
    }
}

pub(super) fn run_icmp6(k: &K, ctx: &mut Ctx) -> Result<(), Failure> {
    use Api::*;
    let l = lim(k.api, k.cfg);
    let (ty, hb) = icmp6_type(k.cfg);
    let want = finish(pseudo6(58, ICMP6_HDR + k.len) + sum_bytes(&hb) + mem().payload_sum(k.usize()));
    let vts = [ValueType::Icmpv6PayloadLength];
    let field = "icmpv6.pseudo_len";
    let mut hb_ck = hb;
    hb_ck[2..4].copy_from_slice(&want.to_be_bytes());
    match k.api {
        Icmp6Calc => judge_ck(k, ctx, field, ty.calc_checksum(SRC6, DST6, k.payload()), Some(want), &vts)?,
        Icmp6ToHeader | Icmp6With => {
            let r = if k.api == Icmp6ToHeader { ty.clone().to_header(SRC6, DST6, k.payload()) } else { Icmpv6Header::with_checksum(ty.clone(), SRC6, DST6, k.payload()) };
            match r {
                Ok(h) => {
                    verdict(k, ctx, field, &l, true, None, &[])?;
                    if l.ok(k.len) {
                        expect_eq(k, ctx, "icmpv6.header", "encoded-field", &h.to_bytes()[..], &hb_ck[..])?;
                    }
                }
                Err(e) => verdict(k, ctx, field, &l, false, Some(vtb(&e)), &vts)?,
            }
        }
        Icmp6Update | ThIcmp6 => {
            let before = Icmpv6Header { icmp_type: ty.clone(), checksum: 0x3c3c };
            let (accepted, err, after) = if k.api == Icmp6Update {
                let mut h = before.clone();
                match h.update_checksum(SRC6, DST6, k.payload()) {
                    Ok(()) => (true, None, h),
                    Err(e) => (false, Some(vtb(&e)), h),
                }
            } else {
                let mut t = TransportHeader::Icmpv6(before.clone());
                let r = t.update_checksum_ipv6(&v6_header(k.cfg), k.payload());
                let TransportHeader::Icmpv6(h) = t else {
                    return ctx.fail(k.failure(field, "variant-changed", "-", "TransportHeader changed its variant".into()));
                };
                match r {
                    Ok(()) => (true, None, h),
                    Err(e) => (false, Some(vtb(&e)), h),
                }
            };
            verdict(k, ctx, field, &l, accepted, err, &vts)?;
            if accepted {
                if l.ok(k.len) {
                    expect_eq(k, ctx, "icmpv6.header", "encoded-field", &after.to_bytes()[..], &hb_ck[..])?;
                }
            } else {
                expect_eq(k, ctx, "icmpv6", "unchanged-on-reject", after, before)?;
            }
        }
        _ => unreachable!(),
    }
    Ok(())
}
