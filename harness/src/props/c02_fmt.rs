//! C02, formatters over the complete value domain of the number newtypes that every decoded result
//! carries (ether type, IP number, ARP hardware id / operation, SLL packet type, Linux non-standard ether
//! type, NDP option type, the bounded integers): "the Debug/Display rendering of every result ...
//! terminates and returns normally". The hand-written `Debug` impls are long `match` tables over ranges;
//! a value no generated packet happens to carry must render like any other.

use crate::engine::*;
use etherparse::*;
use serde_json::json;

fn render(v: u16, out: &mut String) {
    use std::fmt::Write;
    out.clear();
    let _ = write!(out, "{:?}{:#?}", EtherType(v), EtherType(v));
    let _ = write!(out, "{:?}", ArpHardwareId(v));
    let _ = write!(out, "{:?}", ArpOperation(v));
    let _ = write!(out, "{:?}", LinuxSllPacketType::try_from(v));
    let _ = write!(out, "{:?}", LinuxNonstandardEtherType::try_from(v));
    for hw in [ArpHardwareId::ETHERNET, ArpHardwareId::NETLINK, ArpHardwareId::IPGRE, ArpHardwareId::IEEE80211_RADIOTAP, ArpHardwareId::FRAD, ArpHardwareId(v)] {
        let _ = write!(out, "{:?}", LinuxSllProtocolType::try_from((hw, v)));
    }
    let _ = write!(out, "{:?}", VlanId::try_new(v).map(|x| format!("{} {:?}", x, x)));
    let _ = write!(out, "{:?}", IpFragOffset::try_new(v).map(|x| format!("{} {:?}", x, x)));
    let _ = write!(out, "{:?}", Ipv6FlowLabel::try_new(v as u32 * 17).map(|x| format!("{} {:?}", x, x)));
    if v < 256 {
        let b = v as u8;
        let n = IpNumber(b);
        let _ = write!(out, "{:?}{:#?}{:?}{:?}{}", n, n, n.keyword_str(), n.protocol_str(), n.is_ipv6_ext_header_value());
        let _ = write!(out, "{:?}", icmpv6::NdpOptionType(b));
        let _ = write!(out, "{:?}", VlanPcp::try_new(b).map(|x| format!("{} {:?}", x, x)));
        let _ = write!(out, "{:?}", IpDscp::try_new(b).map(|x| format!("{} {:?}", x, x)));
        let _ = write!(out, "{:?}", IpEcn::try_new(b).map(|x| format!("{} {:?}", x, x)));
        let _ = write!(out, "{:?}", MacsecAn::try_new(b).map(|x| format!("{} {:?}", x, x)));
        let _ = write!(out, "{:?}", MacsecShortLen::try_from_u8(b).map(|x| format!("{} {:?}", x, x)));
        let _ = write!(out, "{:?}", igmp::Qrv::try_new(b).map(|x| format!("{} {:?}", x, x)));
    }
}

pub fn enumerate(shard: u64, nshards: u64, ctx: &mut Ctx) -> Result<(), Failure> {
    let mut s = String::new();
    for v in 0..=u16::MAX {
        if v as u64 % nshards != shard {
            continue;
        }
        ctx.eval(1);
        if let Err(m) = catch(|| render(v, &mut s)) {
            return ctx.fail(Failure::new(format!("C02|formatter|panic|{}", panic_location(&m)), "Debug/Display rendering returns normally", format!("value {}: {}", v, m), json!({"fmt_value": v})));
        }
        if s.is_empty() {
            return ctx.fail(Failure::new("C02|formatter|empty", "Debug/Display rendering returns normally", format!("value {} renders to nothing", v), json!({"fmt_value": v})));
        }
    }
    ctx.class("formatters:all-u16-values");
    Ok(())
}

pub fn replay(v: u16, ctx: &mut Ctx) -> Result<(), Failure> {
    let mut s = String::new();
    match catch(|| render(v, &mut s)) {
        Ok(()) => Ok(()),
        Err(m) => ctx.fail(Failure::new(format!("C02|formatter|panic|{}", panic_location(&m)), "Debug/Display rendering returns normally", format!("value {}: {}", v, m), json!({"fmt_value": v}))),
    }
}
