//! C11 — fragments reassemble to the original payload in any arrival order.
//!
//! Stateful / model-based check of `etherparse::defrag::{IpDefragPool, IpDefragBuf}`.
//!
//! A *history* is a list of operations decoded from the tape (and stored concretely in replay
//! files): deliver a fragment of stream `s` (a real Ethernet II [+VLAN] + IPv4 / IPv6+Fragment-header
//! packet built byte by byte in `c11_wire.rs` and sliced with `SlicedPacket::from_ethernet`), deliver
//! an unfragmented packet, `return_buf`, `retain`. After every operation the answer of the pool is
//! compared with a reference model (`c11_model.rs`: per stream key a set of filled byte ranges, the
//! announced end and the generation of the data). The same fragment sequences are driven directly
//! into one `IpDefragBuf` per stream.

use crate::engine::*;
use crate::props::c11_model::*;
use crate::props::c11_wire::*;
use crate::tape::*;
use etherparse::defrag::*;
use etherparse::*;
use serde_json::{json, Value};
use std::collections::BTreeSet;

pub struct C11;

pub const MAX_STREAMS: usize = 4;
pub const MAX_DELIVERIES: usize = 40;
const MAX_OTHER_OPS: usize = 16;
/// generation tag used for the payload of unfragmented packets
const UNFRAG_GEN: u8 = 31;
/// largest fragment payload the generator emits (leaves room for every header variant)
const MAX_FRAG_LEN: u32 = 60_000;

// ------------------------------------------------------------------------------------------------
// history

#[derive(Clone, Debug, PartialEq)]
pub enum Op {
    /// deliver a fragment of stream `s` carrying bytes `off8*8 .. off8*8+len` of generation `gen`
    Frag { s: usize, gen: u8, off8: u16, len: u32, mf: bool, ts: u8, cos: u8, pre: u8 },
    /// deliver an unfragmented packet that carries the key of stream `s`
    Unfrag { s: usize, variant: u8, len: u32, ts: u8, cos: u8 },
    /// give a previously returned payload vec back to the pool
    ReturnBuf { idx: usize, poison: bool },
    /// `retain(|t| keep & (1 << t) != 0)`
    Retain { keep: u8 },
}

#[derive(Clone, Debug)]
pub struct History {
    pub streams: Vec<Key>,
    pub ops: Vec<Op>,
}

impl History {
    fn to_json(&self) -> Value {
        let ops: Vec<Value> = self
            .ops
            .iter()
            .map(|o| match o {
                Op::Frag { s, gen, off8, len, mf, ts, cos, pre } => json!(["f", s, gen, off8, len, *mf as u8, ts, cos, pre]),
                Op::Unfrag { s, variant, len, ts, cos } => json!(["u", s, variant, len, ts, cos]),
                Op::ReturnBuf { idx, poison } => json!(["b", idx, *poison as u8]),
                Op::Retain { keep } => json!(["r", keep]),
            })
            .collect();
        json!({
            "streams": self.streams.iter().map(|k| k.to_json()).collect::<Vec<_>>(),
            "ops": ops,
            "legend": "f:[s,gen,off8,len,mf,ts,cos,pre] u:[s,variant,len,ts,cos] b:[idx,poison] r:[keep mask]; payload byte i of (s,gen) = pat(s,gen,i)",
        })
    }

    fn from_json(v: &Value) -> Option<History> {
        let streams: Vec<Key> = v.get("streams")?.as_array()?.iter().map(Key::from_json).collect::<Option<Vec<_>>>()?;
        if streams.is_empty() || streams.len() > MAX_STREAMS {
            return None;
        }
        let mut ops = vec![];
        for o in v.get("ops")?.as_array()? {
            let a = o.as_array()?;
            let n = |i: usize| a.get(i).and_then(|x| x.as_u64());
            let op = match a.first()?.as_str()? {
                "f" => Op::Frag {
                    s: n(1)? as usize,
                    gen: n(2)? as u8,
                    off8: n(3)? as u16,
                    len: n(4)? as u32,
                    mf: n(5)? != 0,
                    ts: (n(6)? as u8) & 7,
                    cos: n(7)? as u8,
                    pre: n(8)? as u8,
                },
                "u" => Op::Unfrag { s: n(1)? as usize, variant: n(2)? as u8, len: n(3)? as u32, ts: (n(4)? as u8) & 7, cos: n(5)? as u8 },
                "b" => Op::ReturnBuf { idx: n(1)? as usize, poison: n(2)? != 0 },
                "r" => Op::Retain { keep: n(1)? as u8 },
                _ => return None,
            };
            match &op {
                Op::Frag { s, off8, len, .. } if *s >= streams.len() || *off8 > 0x1fff || *len > 65_535 => return None,
                Op::Unfrag { s, len, .. } if *s >= streams.len() || *len > 60_000 => return None,
                _ => {}
            }
            ops.push(op);
        }
        Some(History { streams, ops })
    }
}

// ------------------------------------------------------------------------------------------------
// generator: tape -> history. It runs the reference model while decoding so that it knows what is
// missing / complete / announced; the executor recomputes the model from the concrete ops.

const PROTOS: [u8; 12] = [17, 6, 1, 58, 47, 50, 132, 253, 4, 41, 59, 255];

fn gen_addr(t: &mut Tape, v6: bool) -> [u8; 16] {
    let mut a = [0u8; 16];
    let n = if v6 { 16 } else { 4 };
    match t.weighted(&[3, 3, 4]) {
        0 => {
            a[..n].copy_from_slice(&[10, 0, 0, 1, 0, 0, 0, 0, 0, 0, 0, 0, 0, 0, 0, 1][..n]);
            a[n - 1] = t.u8();
        }
        1 => {
            for x in a[..n].iter_mut() {
                *x = 0;
            }
        }
        _ => {
            for x in a[..n].iter_mut() {
                *x = t.u8();
            }
        }
    }
    a
}

fn gen_key_independent(t: &mut Tape) -> Key {
    let v6 = t.bool();
    let src = gen_addr(t, v6);
    let dst = gen_addr(t, v6);
    let ident = if v6 { t.u32_corner() } else { t.u16_corner() as u32 };
    let proto = if t.chance(1, 100) {
        // rare: protocol numbers that are themselves extension headers (see assumptions)
        if v6 {
            t.pick(&[60u8, 43, 51, 44, 0])
        } else {
            51
        }
    } else {
        t.pick(&PROTOS)
    };
    let nv = t.weighted(&[50, 25, 15, 10]);
    let mut vlans = vec![];
    for _ in 0..nv {
        let tpid = t.pick(&[0x8100u16, 0x88a8, 0x9100]);
        vlans.push((tpid, t.u16() & 0x0fff));
    }
    let chan = if t.bool() { t.u16() } else { 0 };
    Key { v6, src, dst, ident, proto, vlans, chan }
}

/// a key that differs from `b` in exactly one component (except "swap", which exchanges the addresses)
fn gen_key_derived(t: &mut Tape, b: &Key) -> Key {
    let mut k = b.clone();
    let alen = if k.v6 { 16 } else { 4 };
    match t.below(7) {
        0 => {
            k.ident = match t.below(3) {
                0 => k.ident.wrapping_add(1),
                1 => k.ident ^ 0x8000,
                _ => {
                    if k.v6 {
                        k.ident ^ 0x0001_0000
                    } else {
                        k.ident ^ 0x0100
                    }
                }
            };
            if !k.v6 {
                k.ident &= 0xffff;
            }
        }
        1 => {
            let i = t.below(alen);
            k.src[i] ^= 1 << t.below(8);
        }
        2 => {
            let i = t.below(alen);
            k.dst[i] ^= 1 << t.below(8);
        }
        3 => {
            let cur = PROTOS.iter().position(|p| *p == k.proto).unwrap_or(0);
            k.proto = PROTOS[(cur + 1 + t.below(PROTOS.len() - 1)) % PROTOS.len()];
        }
        4 => {
            let n = k.vlans.len();
            let mut var = t.below(4);
            if var == 0 && n == 0 {
                var = 1;
            }
            if var == 2 && n == 0 {
                var = 1;
            }
            if var == 3 && (n < 2 || k.vlans[0].1 == k.vlans[1].1) {
                var = if n < 3 { 1 } else { 0 };
            }
            if var == 1 && n == 3 {
                var = 2;
            }
            match var {
                0 => {
                    let i = t.below(n);
                    k.vlans[i].1 ^= 1 << t.below(12);
                }
                1 => {
                    let vid = if t.bool() { t.u16() & 0xfff } else { 0 };
                    let tpid = t.pick(&[0x8100u16, 0x88a8, 0x9100]);
                    if t.bool() {
                        k.vlans.push((tpid, vid));
                    } else {
                        k.vlans.insert(0, (tpid, vid));
                    }
                }
                2 => {
                    let i = t.below(n);
                    k.vlans.remove(i);
                }
                _ => {
                    // same VLAN ids, other nesting order (TPIDs stay in place)
                    let a = k.vlans[0].1;
                    k.vlans[0].1 = k.vlans[1].1;
                    k.vlans[1].1 = a;
                }
            }
        }
        5 => {
            k.chan = match t.below(3) {
                0 => k.chan.wrapping_add(1),
                1 => k.chan ^ 0x8000,
                _ => k.chan ^ 0x0100,
            };
        }
        _ => {
            std::mem::swap(&mut k.src, &mut k.dst);
        }
    }
    k
}

fn gen_keys(t: &mut Tape, ns: usize) -> Vec<Key> {
    let mut keys: Vec<Key> = vec![];
    for i in 0..ns {
        let mut k = if i > 0 && t.chance(13, 20) {
            let b = keys[t.below(i)].clone();
            gen_key_derived(t, &b)
        } else {
            gen_key_independent(t)
        };
        // distinct stream keys (deterministic repair instead of rejection)
        while keys.iter().any(|o| o.same_stream(&k)) {
            k.ident = k.ident.wrapping_add(1);
            if !k.v6 {
                k.ident &= 0xffff;
            }
        }
        keys.push(k);
    }
    keys
}

fn gen_len(t: &mut Tape) -> u32 {
    match t.weighted(&[20, 40, 25, 5, 7, 3]) {
        0 => t.range(9, 64) as u32,
        1 => t.range(65, 1500) as u32,
        2 => t.range(1501, 4000) as u32,
        3 => t.range(0, 8) as u32,
        4 => t.range(4001, 65_535) as u32,
        _ => t.pick(&[65_535u32, 65_528, 65_529, 65_534, 65_527, 65_515, 65_516, 65_520]),
    }
}

/// cut `len` (> 8) bytes into fragments at multiples of 8: (off8, len, more_fragments)
fn gen_cut(t: &mut Tape, len: u32) -> Vec<(u16, u32, bool)> {
    let units = (len + 7) / 8;
    let mut want = 1 + t.weighted(&[30, 25, 15, 10, 8, 6, 4, 2]);
    if want == 8 {
        want += t.below(8);
    }
    let mut cuts: BTreeSet<u32> = BTreeSet::new();
    for _ in 0..want.min(units as usize - 1) {
        cuts.insert(1 + t.below(units as usize - 1) as u32);
    }
    let mut bounds: Vec<u32> = vec![0];
    bounds.extend(cuts.iter().map(|c| c * 8));
    bounds.push(len);
    // no fragment larger than MAX_FRAG_LEN
    let mut i = 0;
    while i + 1 < bounds.len() {
        if bounds[i + 1] - bounds[i] > MAX_FRAG_LEN {
            let mid = (bounds[i] + (bounds[i + 1] - bounds[i]) / 2) & !7;
            bounds.insert(i + 1, mid);
        } else {
            i += 1;
        }
    }
    (0..bounds.len() - 1).map(|i| ((bounds[i] / 8) as u16, bounds[i + 1] - bounds[i], i + 2 < bounds.len())).collect()
}

fn gen_order(t: &mut Tape, n: usize) -> Vec<usize> {
    let mut o: Vec<usize> = (0..n).collect();
    if n < 2 {
        return o;
    }
    match t.weighted(&[30, 10, 10, 10, 40]) {
        0 => {}
        1 => o.reverse(),
        2 => {
            o.rotate_right(1);
        }
        3 => {
            o = (0..n).step_by(2).chain((1..n).step_by(2)).collect();
        }
        _ => {
            for i in (1..n).rev() {
                let j = t.below(i + 1);
                o.swap(i, j);
            }
        }
    }
    o
}

#[derive(Clone, Debug)]
struct Plan {
    gen: u8,
    len: u32,
    frags: Vec<(u16, u32, bool)>,
    /// remaining deliveries, last element is delivered next
    queue: Vec<usize>,
    delivered: Vec<usize>,
    /// epoch of the model's stream when the plan started
    epoch: u32,
}

const W_KINDS: [[u32; 8]; 4] = [
    // next, dup, recut, unfrag, return, retain, bad, zero-len
    [100, 0, 0, 0, 0, 0, 0, 0],
    [60, 13, 10, 6, 9, 0, 0, 2],
    [56, 12, 9, 6, 8, 7, 0, 2],
    [50, 10, 8, 5, 7, 5, 13, 2],
];

pub fn gen_history(t: &mut Tape) -> History {
    let ns = 1 + t.weighted(&[30, 35, 20, 15]);
    let profile = t.weighted(&[25, 35, 20, 20]);
    let interleave = t.weighted(&[25, 35, 15, 25]);
    let n_deliv = match t.weighted(&[1, 2, 3, 6]) {
        0 => t.range(1, 5),
        1 => t.range(6, 12),
        2 => t.range(13, 24),
        _ => t.range(25, MAX_DELIVERIES),
    };
    let streams = gen_keys(t, ns);
    let mut model = PoolModel::new(ns);
    let mut plans: Vec<Option<Plan>> = vec![None; ns];
    let mut next_gen: Vec<u8> = vec![0; ns];
    let mut color: Vec<u8> = (0..ns as u8).collect();
    let mut ops: Vec<Op> = vec![];
    let mut cur = 0usize;
    let mut deliveries = 0usize;
    let mut others = 0usize;

    while deliveries < n_deliv {
        // a finished (completed / evicted) reassembly ends its plan
        for s in 0..ns {
            if let Some(p) = &plans[s] {
                if p.epoch != model.streams[s].epoch {
                    // sometimes the same datagram is transmitted again (same data, new order)
                    if profile >= 1 && t.chance(3, 10) {
                        let mut p = p.clone();
                        p.queue = gen_order(t, p.frags.len());
                        p.queue.reverse();
                        p.delivered.clear();
                        p.epoch = model.streams[s].epoch;
                        plans[s] = Some(p);
                    } else {
                        plans[s] = None;
                    }
                }
            }
        }
        // which stream
        if ns > 1 {
            match interleave {
                0 => {
                    if plans[cur].is_none() && !ops.is_empty() {
                        cur = (cur + 1) % ns;
                    }
                }
                1 => {
                    if t.chance(1, 4) {
                        cur = t.below(ns);
                    }
                }
                2 => cur = (cur + 1) % ns,
                _ => cur = t.below(ns),
            }
        }
        let s = cur;
        let v6 = streams[s].v6;
        if plans[s].is_none() {
            let len = gen_len(t);
            let frags = if len > 8 { gen_cut(t, len) } else { vec![] };
            let mut queue = gen_order(t, frags.len());
            queue.reverse();
            plans[s] = Some(Plan { gen: next_gen[s] % 31, len, frags, queue, delivered: vec![], epoch: model.streams[s].epoch });
            next_gen[s] = next_gen[s].wrapping_add(1);
        }
        if t.chance(1, 10) {
            color[s] = t.below(8) as u8;
        }
        let ts = color[s];
        let cos = t.u8();
        // per-fragment headers that do not belong to the key: IPv4 options / IPv6 extension headers
        // in front of the fragment header
        let pre = if t.chance(1, 6) { 1 + t.below(if v6 { 7 } else { 10 }) as u8 } else { 0 };

        let mut kind = t.weighted(&W_KINDS[profile]);
        let plan = plans[s].as_mut().unwrap();
        if plan.len <= 8 {
            // a datagram that cannot be cut: travels unfragmented
            if kind != 3 && kind != 4 && kind != 5 {
                kind = 0;
            }
        } else {
            if kind == 1 && plan.delivered.is_empty() {
                kind = 0;
            }
        }
        if (kind == 4 && model.held == 0) || ((kind == 4 || kind == 5) && others >= MAX_OTHER_OPS) {
            kind = if plan.len <= 8 { 3 } else { 0 };
        }
        let mut frag: Option<(u16, u32, bool)> = None;
        match kind {
            0 if plan.len <= 8 => {
                let variant = if t.chance(1, 4) { 1 + t.below(3) as u8 } else { 0 };
                ops.push(Op::Unfrag { s, variant, len: plan.len, ts, cos });
                model.unfrag();
                deliveries += 1;
                plans[s] = None;
            }
            0 => {
                if plan.queue.is_empty() {
                    // stuck reassembly (e.g. after a conflicting end was accepted): send everything again
                    plan.queue = (0..plan.frags.len()).rev().collect();
                }
                let i = plan.queue.pop().unwrap();
                plan.delivered.push(i);
                frag = Some(plan.frags[i]);
            }
            1 => {
                let i = plan.delivered[t.below(plan.delivered.len())];
                frag = Some(plan.frags[i]);
            }
            2 => {
                // another cut of the same data: an arbitrary unit-aligned sub-range
                let units = (plan.len + 7) / 8;
                let a = t.below(units as usize) as u32;
                let mut b = a + 1 + t.below(((units - a) as usize).min(16)) as u32;
                if a == 0 && b == units {
                    // the whole datagram in one piece would not be a fragment
                    b -= 1;
                }
                let e = (b * 8).min(plan.len);
                frag = Some((a as u16, e - a * 8, e < plan.len));
            }
            3 => {
                let variant = t.below(4) as u8;
                let len = t.range(0, 64) as u32;
                ops.push(Op::Unfrag { s, variant, len, ts, cos });
                model.unfrag();
                deliveries += 1;
            }
            4 => {
                let idx = t.below(model.held);
                ops.push(Op::ReturnBuf { idx, poison: t.bool() });
                model.return_buf();
                others += 1;
            }
            5 => {
                let keep = match t.weighted(&[2, 4, 2, 3]) {
                    0 => 0xff,
                    1 => !(1u8 << color[s]),
                    2 => 0x00,
                    _ => t.u8(),
                };
                ops.push(Op::Retain { keep });
                model.retain(keep);
                others += 1;
            }
            6 => {
                let last = *plan.frags.last().unwrap();
                let f = match t.weighted(&[3, 3, 3, 2, 2]) {
                    0 => {
                        // non-last fragment whose length is not a multiple of 8
                        let b = plan.frags[t.below(plan.frags.len())];
                        let off = b.0 as u32 * 8;
                        let mut len = (b.1 & !7) + 1 + t.below(7) as u32;
                        if t.bool() && b.1 >= 8 {
                            len = (b.1 & !7) - 1 - t.below(7) as u32;
                        }
                        if off + len > 65_535 {
                            len = 1 + t.below(7) as u32;
                        }
                        (b.0, len, true)
                    }
                    1 => {
                        // fragment reaching beyond 65,535
                        let j = t.below(16) as u32;
                        let off8 = 8191 - j;
                        let mut len = 8 * (j + 1) + 8 * t.below(4) as u32;
                        let mut mf = t.bool();
                        match t.weighted(&[6, 1, 1]) {
                            0 => {}
                            1 => {
                                len += 3;
                                mf = true;
                            }
                            _ => {
                                // a long fragment from the middle
                                let off8 = 1024 + t.below(4096) as u32;
                                let len = 65_536 - off8 * 8 + 8 * t.below(4) as u32;
                                frag = Some((off8 as u16, len.min(MAX_FRAG_LEN), mf));
                            }
                        }
                        match frag.take() {
                            Some(f) if f.0 as u32 * 8 + f.1 > 65_535 => f,
                            _ => (off8 as u16, len, mf),
                        }
                    }
                    2 => {
                        // a non-last fragment presented as the last one: announces a shorter end
                        let n = plan.frags.len();
                        let b = plan.frags[if n > 2 { 1 + t.below(n - 2) } else { 0 }];
                        (b.0, b.1, false)
                    }
                    3 => {
                        // the last fragment, but longer: announces a later end
                        let off = last.0 as u32 * 8;
                        let len = (last.1 + 1 + t.below(64) as u32).min(65_535 - off).min(MAX_FRAG_LEN);
                        (last.0, len, false)
                    }
                    _ => {
                        // a non-last fragment behind the end of the datagram
                        let off8 = ((plan.len + 7) / 8 + t.below(4) as u32).min(8000);
                        (off8 as u16, 8 * (1 + t.below(3) as u32), true)
                    }
                };
                frag = Some(f);
            }
            _ => {
                // fragments without data
                if plan.len % 8 == 0 && t.bool() {
                    frag = Some(((plan.len / 8) as u16, 0, false));
                } else {
                    let units = (plan.len + 7) / 8;
                    frag = Some((t.below(units as usize) as u16, 0, true));
                }
            }
        }
        if let Some((off8, len, mf)) = frag {
            let gen = plans[s].as_ref().unwrap().gen;
            ops.push(Op::Frag { s, gen, off8, len, mf, ts, cos, pre });
            let exp = model.expect_frag(s, gen, off8 as u32 * 8, len, mf);
            let completed = exp.assumed_completion();
            model.commit_frag(s, gen, off8 as u32 * 8, len, mf, ts, &exp, completed);
            deliveries += 1;
            if completed && profile >= 1 && others < MAX_OTHER_OPS && t.bool() {
                ops.push(Op::ReturnBuf { idx: model.held - 1, poison: t.bool() });
                model.return_buf();
                others += 1;
            }
        }
    }
    History { streams, ops }
}

// ------------------------------------------------------------------------------------------------
// executor

struct Exec<'a> {
    h: &'a History,
    pool: IpDefragPool<u8, u16>,
    held: Vec<IpDefragPayloadVec>,
    model: PoolModel,
    dbufs: Vec<IpDefragBuf>,
    dmodels: Vec<Reasm>,
    dgen: Vec<Option<u8>>,
    at: usize,
    /// a stream whose protocol number is an extension header had a fragment delivered: the slicer
    /// turns its data into headers, the resulting garbage key may hit any other stream
    tainted_by: Option<usize>,
}

fn ver(k: &Key) -> &'static str {
    if k.v6 {
        "v6"
    } else {
        "v4"
    }
}

fn err_name(e: &IpDefragError) -> &'static str {
    match e {
        IpDefragError::UnalignedFragmentPayloadLen { .. } => "UnalignedFragmentPayloadLen",
        IpDefragError::SegmentTooBig { .. } => "SegmentTooBig",
        IpDefragError::ConflictingEnd { .. } => "ConflictingEnd",
        IpDefragError::AllocationFailure { .. } => "AllocationFailure",
    }
}

/// first difference between `actual` and the pattern of (s, gen), described so that a leaked byte is recognisable
fn diagnose(h: &History, s: usize, gen: u8, actual: &[u8], end: u32) -> Option<String> {
    if actual.len() as u32 != end {
        return Some(format!("payload has {} bytes, expected {}", actual.len(), end));
    }
    for (i, b) in actual.iter().enumerate() {
        let want = pat(s, gen, i as u32);
        if *b != want {
            let tg = *b ^ pat_base(i as u32);
            let whose = if (1..=128).contains(&tg) {
                let (s2, g2) = (((tg - 1) / 32) as usize, (tg - 1) % 32);
                if s2 < h.streams.len() {
                    format!("the byte stream {} generation {} has at this offset", s2, g2)
                } else {
                    "no stream's byte at this offset".to_string()
                }
            } else if *b == POISON {
                "the poison byte written into a returned buffer".to_string()
            } else {
                "no stream's byte at this offset".to_string()
            };
            let nbad = actual.iter().enumerate().filter(|(i, b)| **b != pat(s, gen, *i as u32)).count();
            return Some(format!(
                "byte {} of {} is {:#04x}, expected {:#04x} (stream {} generation {}); it is {}; {} bytes differ in total",
                i, end, b, want, s, gen, whose, nbad
            ));
        }
    }
    None
}

impl<'a> Exec<'a> {
    fn new(h: &'a History) -> Exec<'a> {
        let ns = h.streams.len();
        Exec {
            h,
            pool: IpDefragPool::new(),
            held: vec![],
            model: PoolModel::new(ns),
            dbufs: h.streams.iter().map(|k| IpDefragBuf::new(IpNumber(k.proto), Vec::new(), Vec::new())).collect(),
            dmodels: vec![Reasm::default(); ns],
            dgen: vec![None; ns],
            at: 0,
            tainted_by: None,
        }
    }

    fn failure(&self, entry: &str, s: usize, clause: &str, shape: &str, detail: String) -> Failure {
        let k = &self.h.streams[s];
        let mut input = self.h.to_json();
        input["failing_op_index"] = json!(self.at);
        let culprit = if k.proto_is_ext_header() { Some(s) } else { self.tainted_by };
        let sig = match culprit {
            // one root cause: the slicer decodes the data of a fragment as extension headers
            Some(c) if entry != "IpDefragBuf::add" => format!(
                "C11|SlicedPacket::from_ethernet+IpDefragPool|{}|exthdr-proto|fragment-data-parsed-as-extension-header",
                ver(&self.h.streams[c])
            ),
            _ => format!("C11|{}|{}|{}|{}", entry, ver(k), clause, shape),
        };
        Failure::new(sig, clause, format!("op #{} {:?} (stream {}: {}): {}", self.at, self.h.ops[self.at], s, k.describe(), detail), input)
    }

    /// Some(detail) if `p` is not a correct result for stream `s` in the loose sense: right protocol,
    /// a length that was announced, every byte the byte of one generation delivered into the stream
    fn unsound(&self, s: usize, r: &Reasm, ip_number: IpNumber, payload: &[u8]) -> Option<String> {
        let k = &self.h.streams[s];
        if ip_number.0 != k.proto {
            return Some(format!("ip_number {} but the stream's protocol is {}", ip_number.0, k.proto));
        }
        if !r.ends.contains(&(payload.len() as u32)) {
            return Some(format!("payload length {} was never announced by a last fragment (announced: {:?})", payload.len(), r.ends));
        }
        // both generations may legitimately be mixed when a new datagram was started on a key whose old
        // state might still be open: every byte must be the byte SOME delivered generation has there
        if r.gens.is_empty() {
            return Some("no data was delivered into this stream".into());
        }
        if r.gens.len() == 1 {
            return diagnose(self.h, s, *r.gens.iter().next().unwrap(), payload, payload.len() as u32);
        }
        for (i, b) in payload.iter().enumerate() {
            if !r.gens.iter().any(|g| pat(s, *g, i as u32) == *b) {
                return Some(format!("byte {} of {} is {:#04x}, which no generation delivered into this stream ({:?}) has at that offset (tag {:#04x})", i, payload.len(), b, r.gens, *b ^ pat_base(i as u32)));
            }
        }
        None
    }

    fn step(&mut self, ctx: &mut Ctx) -> Result<bool, Failure> {
        let op = self.h.ops[self.at].clone();
        match op {
            Op::Frag { s, off8: 0, len, mf: false, ts, cos, .. } => self.unfrag(s, 1, len, ts, cos, ctx),
            Op::Frag { s, gen, off8, len, mf, ts, cos, pre } => self.frag(s, gen, off8, len, mf, ts, cos, pre, ctx),
            Op::Unfrag { s, variant, len, ts, cos } => self.unfrag(s, variant, len, ts, cos, ctx),
            Op::ReturnBuf { idx, poison } => {
                if !self.held.is_empty() {
                    let i = idx % self.held.len();
                    let mut v = self.held.remove(i);
                    if poison {
                        for b in v.payload.iter_mut() {
                            *b = POISON;
                        }
                    }
                    self.pool.return_buf(v);
                    self.model.return_buf();
                    ctx.class("op:return_buf");
                }
                Ok(true)
            }
            Op::Retain { keep } => {
                self.pool.retain(|t| keep & (1u8 << (*t & 7)) != 0);
                let (dropped, ambiguous) = self.model.retain(keep);
                ctx.class(if dropped > 0 { "op:retain:drops-some" } else { "op:retain:drops-none" });
                if ambiguous > 0 {
                    ctx.class("tolerance:retain-first-vs-last-timestamp");
                }
                Ok(true)
            }
        }
    }

    fn unfrag(&mut self, s: usize, variant: u8, len: u32, ts: u8, cos: u8, ctx: &mut Ctx) -> Result<bool, Failure> {
        {
            {
                let k = &self.h.streams[s];
                let pkt = build_unfragmented(k, variant, &pat_vec(s, UNFRAG_GEN, 0, len), cos);
                let sliced = match SlicedPacket::from_ethernet(&pkt) {
                    Ok(x) => x,
                    Err(e) => {
                        let f = Failure::new("C11|harness|unfragmented-packet-not-sliceable", "harness", format!("{:?}", e), self.h.to_json());
                        return Err(f);
                    }
                };
                ctx.eval(1);
                ctx.class(match variant & 3 {
                    0 => "op:unfrag:plain",
                    1 => "op:unfrag:atomic-frag-hdr/df",
                    2 => "op:unfrag:arp",
                    _ => "op:unfrag:ext-hdrs/options",
                });
                let r = self.pool.process_sliced_packet(&sliced, ts, k.chan);
                self.model.unfrag();
                match r {
                    Ok(None) => Ok(true),
                    other => {
                        let clause = "unfragmented-pass-through";
                        let shape = match &other {
                            Ok(Some(_)) => "returned-payload".to_string(),
                            Err(e) => format!("error:{}", err_name(e)),
                            _ => unreachable!(),
                        };
                        let f = self.failure("IpDefragPool::process_sliced_packet", s, clause, &shape, format!("unfragmented packet (variant {}) must be skipped with Ok(None), got {:?}", variant, short(&other)));
                        ctx.fail(f)?;
                        Ok(false)
                    }
                }
            }
        }
    }

    #[allow(clippy::too_many_arguments)]
    fn frag(&mut self, s: usize, gen: u8, off8: u16, len: u32, mf: bool, ts: u8, cos: u8, pre: u8, ctx: &mut Ctx) -> Result<bool, Failure> {
        const ENTRY: &str = "IpDefragPool::process_sliced_packet";
        let k = &self.h.streams[s];
        let off = off8 as u32 * 8;
        let payload = pat_vec(s, gen, off, len);
        let pkt = match build_fragment(k, off8, mf, &payload, cos, pre) {
            Ok(p) => p,
            Err(e) => return Err(Failure::new("C11|harness|fragment-not-encodable", "harness", e, self.h.to_json())),
        };
        let exp = self.model.expect_frag(s, gen, off, len, mf);
        if k.proto_is_ext_header() && self.tainted_by.is_none() {
            self.tainted_by = Some(s);
        }
        let sliced = match SlicedPacket::from_ethernet(&pkt) {
            Ok(x) => x,
            Err(e) => {
                let f = self.failure("SlicedPacket::from_ethernet", s, "fragment-sliceable", "slice-error", format!("a well-formed fragment packet is rejected by the slicer: {:?}", e));
                ctx.fail(f)?;
                return Ok(false);
            }
        };
        ctx.eval(1);
        let res = self.pool.process_sliced_packet(&sliced, ts, k.chan);

        // -------- compare with the model
        let mut completed = false;
        let mut finished: Option<St> = None;
        let want_len_source = if k.v6 { LenSource::Ipv6HeaderPayloadLen } else { LenSource::Ipv4HeaderTotalLen };
        let fail = |this: &Self, clause: &str, shape: &str, detail: String| this.failure(ENTRY, s, clause, shape, detail);

        // 1. state-independent inconsistencies are errors in every state
        if exp.too_big || exp.unaligned {
            ctx.class(match (exp.too_big, exp.unaligned) {
                (true, true) => "err:too-big+unaligned",
                (true, false) => "err:too-big",
                _ => "err:unaligned",
            });
            let ok = match &res {
                Err(IpDefragError::SegmentTooBig { offset, payload_len, max }) if exp.too_big => {
                    if offset.value() != off8 || *payload_len != len as usize || *max != u16::MAX {
                        let f = fail(self, "error-fields", "SegmentTooBig", format!("got {:?} for offset {} len {}", res.as_ref().err(), off8, len));
                        ctx.fail(f)?;
                        return Ok(false);
                    }
                    true
                }
                Err(IpDefragError::UnalignedFragmentPayloadLen { offset, payload_len }) if exp.unaligned => {
                    if offset.value() != off8 || *payload_len != len as usize {
                        let f = fail(self, "error-fields", "UnalignedFragmentPayloadLen", format!("got {:?} for offset {} len {}", res.as_ref().err(), off8, len));
                        ctx.fail(f)?;
                        return Ok(false);
                    }
                    true
                }
                _ => false,
            };
            if !ok {
                let class = if exp.too_big && exp.unaligned {
                    "too-big+unaligned"
                } else if exp.too_big {
                    "too-big"
                } else {
                    "unaligned"
                };
                let f = fail(
                    self,
                    "inconsistent-fragment-rejected",
                    class,
                    format!("fragment [{}..{}) mf={} is inconsistent ({}), expected the matching Err, got {:?}", off, off + len, mf, class, short(&res)),
                );
                ctx.fail(f)?;
                return Ok(false);
            }
        } else if !exp.loose {
            // 2. strict: the model knows the exact answer
            match &exp.core {
                Core::PassThrough => {
                    if !matches!(res, Ok(None)) {
                        let f = fail(self, "unfragmented-pass-through", "offset0-last", format!("got {:?}", short(&res)));
                        ctx.fail(f)?;
                        return Ok(false);
                    }
                }
                Core::StateErr => unreachable!(),
                Core::Conflict { prev, cur } => {
                    ctx.class(if mf { "err:conflict:beyond-known-end" } else { "err:conflict:second-end" });
                    match &res {
                        Err(IpDefragError::ConflictingEnd { previous_end, conflicting_end }) => {
                            if *previous_end as u32 != *prev || *conflicting_end as u32 != *cur {
                                let f = fail(self, "error-fields", "ConflictingEnd", format!("got {:?}, expected previous_end {} conflicting_end {}", res.as_ref().err(), prev, cur));
                                ctx.fail(f)?;
                                return Ok(false);
                            }
                        }
                        _ => {
                            let f = fail(
                                self,
                                "inconsistent-fragment-rejected",
                                if mf { "beyond-known-end" } else { "second-end" },
                                format!("end {} was announced, fragment [{}..{}) mf={} conflicts with it; expected Err(ConflictingEnd), got {:?}", prev, off, off + len, mf, short(&res)),
                            );
                            ctx.fail(f)?;
                            return Ok(false);
                        }
                    }
                }
                Core::Ambiguous(why) => {
                    ctx.class(&format!("tolerance:{}", why));
                    // any verdict; a payload must still be sound (checked below with the loose rule after commit)
                }
                Core::Accept { completes: None } => match &res {
                    Ok(None) => {}
                    Ok(Some(p)) => {
                        let d = diagnose(self.h, s, gen, &p.payload, p.payload.len() as u32);
                        let f = fail(
                            self,
                            "nothing-before-last-missing-byte",
                            "spurious-result",
                            format!(
                                "a payload of {} bytes was returned although the model still misses data (filled {:?}, end {:?}); content check: {}",
                                p.payload.len(),
                                self.model.streams[s].st.filled,
                                self.model.streams[s].st.end,
                                d.unwrap_or_else(|| "bytes equal the pattern".into())
                            ),
                        );
                        ctx.fail(f)?;
                        return Ok(false);
                    }
                    Err(e) => {
                        let f = fail(self, "consistent-fragment-accepted", &format!("spurious-error:{}", err_name(e)), format!("fragment [{}..{}) mf={} is consistent with everything seen, got {:?}", off, off + len, mf, e));
                        ctx.fail(f)?;
                        return Ok(false);
                    }
                },
                Core::Accept { completes: Some(end) } => match &res {
                    Ok(Some(p)) => {
                        if let Some(d) = diagnose(self.h, s, gen, &p.payload, *end) {
                            let f = fail(self, "payload-equals-original", "content", d);
                            ctx.fail(f)?;
                            return Ok(false);
                        }
                        if p.ip_number.0 != k.proto {
                            let f = fail(self, "protocol-equals-original", "ip_number", format!("ip_number {} expected {}", p.ip_number.0, k.proto));
                            ctx.fail(f)?;
                            return Ok(false);
                        }
                        if p.len_source != want_len_source {
                            let f = fail(self, "len-source-names-ip-version", "len_source", format!("len_source {:?} expected {:?}", p.len_source, want_len_source));
                            ctx.fail(f)?;
                            return Ok(false);
                        }
                        completed = true;
                    }
                    Ok(None) => {
                        let f = fail(
                            self,
                            "result-on-last-missing-byte",
                            "missing-result",
                            format!("this delivery closes the last gap of [0..{}) but the pool returned None (model before: filled {:?}, end {:?})", end, self.model.streams[s].st.filled, self.model.streams[s].st.end),
                        );
                        ctx.fail(f)?;
                        return Ok(false);
                    }
                    Err(e) => {
                        let f = fail(self, "consistent-fragment-accepted", &format!("spurious-error:{}", err_name(e)), format!("fragment [{}..{}) mf={} is consistent with everything seen, got {:?}", off, off + len, mf, e));
                        ctx.fail(f)?;
                        return Ok(false);
                    }
                },
            }
        }

        // 3. commit to the model; loose streams (and ambiguous deliveries) only get the soundness rule
        let is_loose_now = exp.loose || matches!(exp.core, Core::Ambiguous(_));
        if is_loose_now && !(exp.too_big || exp.unaligned) {
            if let Ok(Some(p)) = &res {
                completed = true;
                // commit first so that this delivery's end / generation are part of the loose record
                let mut probe = self.model.streams[s].clone();
                probe.note_loose(gen, off, len, mf);
                if let Some(d) = self.unsound(s, &probe, p.ip_number, &p.payload) {
                    let f = fail(self, "payload-equals-original", "content-after-ambiguous-state", d);
                    ctx.fail(f)?;
                    return Ok(false);
                }
                if p.len_source != want_len_source {
                    let f = fail(self, "len-source-names-ip-version", "len_source", format!("len_source {:?} expected {:?}", p.len_source, want_len_source));
                    ctx.fail(f)?;
                    return Ok(false);
                }
            }
            if exp.loose && self.tainted_by.is_none() {
                // measure whether the crate behaves like "an error leaves the stream untouched"
                if exp.shadow_valid {
                    let agrees = match (&exp.core, &res) {
                        (Core::Accept { completes: None }, Ok(None)) => true,
                        (Core::Accept { completes: Some(_) }, Ok(Some(_))) => true,
                        (Core::Conflict { .. }, Err(IpDefragError::ConflictingEnd { .. })) => true,
                        (Core::PassThrough, Ok(None)) => true,
                        (Core::Ambiguous(_), _) => true,
                        _ => false,
                    };
                    ctx.class(if agrees { "hypothesis(Err keeps state, retain judges latest timestamp):agrees" } else { "hypothesis(Err keeps state, retain judges latest timestamp):differs" });
                } else {
                    ctx.class("loose:no-hypothesis");
                }
            }
        }
        if let Some(st) = self.model.commit_frag(s, gen, off, len, mf, ts, &exp, completed) {
            finished = Some(st);
        }
        if let Ok(Some(p)) = res {
            if self.held.len() >= 8 {
                self.held.remove(0);
            }
            self.held.push(p);
        }
        ctx.class(if exp.loose { "deliver:loose-stream" } else { "deliver:strict-stream" });
        if pre != 0 {
            ctx.class(if k.v6 { "deliver:v6-per-fragment-ext-hdrs" } else { "deliver:v4-options" });
        }
        if len == 0 {
            ctx.class("deliver:zero-length-fragment");
        }

        // -------- classification of completions
        if let Some(st) = finished {
            self.classify_completion(s, &st, ctx);
        }

        // -------- the same fragment directly into an IpDefragBuf
        self.direct(s, gen, off8, len, mf, &payload, ctx)
    }

    fn classify_completion(&self, s: usize, st: &St, ctx: &mut Ctx) {
        let k = &self.h.streams[s];
        let mut distinct: Vec<u32> = vec![];
        for a in st.arrivals.iter() {
            if !distinct.contains(a) {
                distinct.push(*a);
            }
        }
        let n = distinct.len();
        let ooo = distinct.windows(2).any(|w| w[0] > w[1]);
        let mut sorted = distinct.clone();
        sorted.sort();
        let perm = if n <= 5 {
            distinct.iter().map(|a| sorted.iter().position(|x| x == a).unwrap().to_string()).collect::<Vec<_>>().join("")
        } else {
            let desc = distinct.windows(2).all(|w| w[0] > w[1]);
            let last_first = distinct[0] == *sorted.last().unwrap() && distinct[1..].windows(2).all(|w| w[0] < w[1]);
            format!(
                "{}:{}",
                if n <= 8 { "6-8" } else { "9+" },
                if !ooo {
                    "asc"
                } else if desc {
                    "desc"
                } else if last_first {
                    "last-first"
                } else {
                    "mixed"
                }
            )
        };
        let mut rel: Vec<&'static str> = vec![];
        for o in 0..self.h.streams.len() {
            if st.others & (1 << o) != 0 {
                let r = k.relation(&self.h.streams[o]);
                if !rel.contains(&r) {
                    rel.push(r);
                }
            }
        }
        rel.sort();
        ctx.class(if k.v6 { "complete:v6" } else { "complete:v4" });
        ctx.class(&format!("complete:vlans={}", k.vlans.len()));
        if ooo {
            ctx.class("complete:out-of-order");
        }
        if ooo && n >= 3 {
            ctx.class("complete:out-of-order>=3frags");
        }
        if st.dup {
            ctx.class("complete:with-duplicates");
        }
        if st.overlap {
            ctx.class("complete:with-overlapping-recut");
        }
        if st.others != 0 {
            ctx.class("complete:interleaved");
            for r in rel.iter() {
                ctx.class(&format!("complete:interleaved-with:{}", r));
            }
        }
        if st.reuse {
            ctx.class("complete:after-buffer-reuse");
        }
        let end = st.end.unwrap_or(0);
        ctx.class(if end > 4000 {
            "complete:len>4000"
        } else if end > 1500 {
            "complete:len<=4000"
        } else {
            "complete:len<=1500"
        });
        if end >= 65_515 {
            ctx.class("complete:len>=65515");
        }
        if st.ts_mask.count_ones() > 1 {
            ctx.class("complete:timestamp-changed");
        }
        let nontrivial = (ooo && n >= 3) || st.others != 0 || st.reuse;
        if nontrivial {
            let sig = format!("{}|perm={}|dup={}|with={}|reuse={}", ver(k), perm, (st.dup || st.overlap) as u8, rel.join("+"), st.reuse as u8);
            ctx.nontrivial(&sig, || json!({"signature": sig, "stream": k.describe(), "arrival_offsets": distinct, "end": end}));
        }
    }

    #[allow(clippy::too_many_arguments)]
    fn direct(&mut self, s: usize, gen: u8, off8: u16, len: u32, mf: bool, payload: &[u8], ctx: &mut Ctx) -> Result<bool, Failure> {
        const ENTRY: &str = "IpDefragBuf::add";
        let off = off8 as u32 * 8;
        if off == 0 && !mf {
            return Ok(true);
        }
        let proto = self.h.streams[s].proto;
        // a new datagram: the driver (this harness) starts over with the used allocations
        if self.dgen[s].is_some() && self.dgen[s] != Some(gen) {
            self.recycle_direct(s);
        }
        self.dgen[s] = Some(gen);
        let exp = self.dmodels[s].expect(gen, off, len, mf);
        ctx.eval(1);
        let res = self.dbufs[s].add(IpFragOffset::try_new(off8).unwrap(), mf, payload);
        let complete = self.dbufs[s].is_complete();
        let fail = |this: &Self, clause: &str, shape: &str, detail: String| this.failure(ENTRY, s, clause, shape, detail);

        if exp.too_big || exp.unaligned {
            let ok = matches!(
                (&res, exp.too_big, exp.unaligned),
                (Err(IpDefragError::SegmentTooBig { .. }), true, _) | (Err(IpDefragError::UnalignedFragmentPayloadLen { .. }), _, true)
            );
            if !ok {
                let f = fail(self, "inconsistent-fragment-rejected", if exp.too_big { "too-big" } else { "unaligned" }, format!("add({}, {}, {} bytes) -> {:?}", off8, mf, len, res));
                ctx.fail(f)?;
                return Ok(false);
            }
        } else if !exp.loose {
            match &exp.core {
                Core::PassThrough | Core::StateErr => unreachable!(),
                Core::Conflict { prev, cur } => {
                    let ok = matches!(&res, Err(IpDefragError::ConflictingEnd { previous_end, conflicting_end }) if *previous_end as u32 == *prev && *conflicting_end as u32 == *cur);
                    if !ok {
                        let f = fail(self, "inconsistent-fragment-rejected", "conflicting-end", format!("add({}, {}, {} bytes) with end {} known -> {:?}", off8, mf, len, prev, res));
                        ctx.fail(f)?;
                        return Ok(false);
                    }
                }
                Core::Ambiguous(_) => {}
                Core::Accept { completes } => {
                    if let Err(e) = &res {
                        let f = fail(self, "consistent-fragment-accepted", &format!("spurious-error:{}", err_name(e)), format!("add({}, {}, {} bytes) -> {:?}", off8, mf, len, e));
                        ctx.fail(f)?;
                        return Ok(false);
                    }
                    if complete != completes.is_some() {
                        let f = fail(
                            self,
                            "is_complete-iff-no-gap",
                            if complete { "spurious-complete" } else { "missing-complete" },
                            format!("is_complete() = {} after add({}, {}, {} bytes); model before: filled {:?} end {:?}; sections {:?} end {:?}", complete, off8, mf, len, self.dmodels[s].st.filled, self.dmodels[s].st.end, self.dbufs[s].sections(), self.dbufs[s].end()),
                        );
                        ctx.fail(f)?;
                        return Ok(false);
                    }
                }
            }
        }
        let ambiguous_now = exp.loose || matches!(exp.core, Core::Ambiguous(_));
        let state_err = exp.too_big || exp.unaligned;
        if ambiguous_now && !state_err && complete {
            let mut probe = self.dmodels[s].clone();
            probe.note_loose(gen, off, len, mf);
            let b = &self.dbufs[s];
            if let Some(d) = self.unsound(s, &probe, b.ip_number(), b.data()) {
                let f = fail(self, "payload-equals-original", "content-after-ambiguous-state", d);
                ctx.fail(f)?;
                return Ok(false);
            }
        }
        // a buffer whose add() failed can not become complete by that
        let completed = complete && !state_err && !matches!((&exp.core, exp.loose), (Core::Conflict { .. }, false));
        self.dmodels[s].commit(gen, off, len, mf, 0, &exp, completed);

        // observable state against the model (strict only)
        let m = &self.dmodels[s];
        if !m.loose && !completed && matches!(exp.core, Core::Accept { .. }) && !state_err {
            let b = &self.dbufs[s];
            if b.end().map(|e| e as u32) != m.st.end {
                let f = fail(self, "end-is-announced-end", "end", format!("end() = {:?}, model {:?}", b.end(), m.st.end));
                ctx.fail(f)?;
                return Ok(false);
            }
            let mut secs: Vec<(u32, u32)> = b.sections().iter().filter(|r| r.start != r.end).map(|r| (r.start as u32, r.end as u32)).collect();
            secs.sort();
            let mut norm: Vec<(u32, u32)> = vec![];
            for r in secs {
                match norm.last_mut() {
                    Some(l) if r.0 <= l.1 => l.1 = l.1.max(r.1),
                    _ => norm.push(r),
                }
            }
            if norm != m.st.filled {
                let f = fail(self, "sections-are-filled-ranges", "sections", format!("sections() = {:?} (normalised {:?}), model {:?}", b.sections(), norm, m.st.filled));
                ctx.fail(f)?;
                return Ok(false);
            }
            let d = b.data();
            let e = (off + len) as usize;
            if d.len() < e || d[off as usize..e] != payload[..] {
                let f = fail(self, "data-holds-fragment", "data", format!("data() (len {}) does not hold the fragment just added at [{}..{})", d.len(), off, e));
                ctx.fail(f)?;
                return Ok(false);
            }
        }
        if completed {
            if !exp.loose {
                if let Core::Accept { completes: Some(end) } = &exp.core {
                    let b = &self.dbufs[s];
                    if let Some(d) = diagnose(self.h, s, gen, b.data(), *end) {
                        let f = fail(self, "payload-equals-original", "content", d);
                        ctx.fail(f)?;
                        return Ok(false);
                    }
                    if b.ip_number().0 != proto {
                        let f = fail(self, "protocol-equals-original", "ip_number", format!("{:?}", b.ip_number()));
                        ctx.fail(f)?;
                        return Ok(false);
                    }
                    ctx.class("direct-buf:complete");
                    // a redundant copy of bytes strictly inside a complete buffer changes nothing
                    if *end > 16 {
                        ctx.eval(1);
                        let r = self.dbufs[s].add(IpFragOffset::try_new(1).unwrap(), true, &pat_vec(s, gen, 8, 8));
                        let b = &self.dbufs[s];
                        if r.is_err() || !b.is_complete() || diagnose(self.h, s, gen, b.data(), *end).is_some() {
                            let f = fail(
                                self,
                                "duplicate-keeps-complete",
                                "inner-duplicate-after-completion",
                                format!("after completion of [0..{}) a duplicate of bytes [8..16) gave {:?}; is_complete() = {}, sections {:?}, data len {}", end, r, b.is_complete(), b.sections(), b.data().len()),
                            );
                            ctx.fail(f)?;
                            return Ok(false);
                        }
                    }
                }
            }
            self.recycle_direct(s);
            self.dgen[s] = None;
        }
        Ok(true)
    }

    /// take the allocations out of the direct buffer of stream `s` and start a new buffer with them
    fn recycle_direct(&mut self, s: usize) {
        let proto = self.h.streams[s].proto;
        let old = std::mem::replace(&mut self.dbufs[s], IpDefragBuf::new(IpNumber(proto), Vec::new(), Vec::new()));
        let (data, sections) = old.take_bufs();
        self.dbufs[s] = IpDefragBuf::new(IpNumber(proto), data, sections);
        self.dmodels[s].reset();
    }
}

fn short(r: &Result<Option<IpDefragPayloadVec>, IpDefragError>) -> String {
    match r {
        Ok(None) => "Ok(None)".into(),
        Ok(Some(p)) => format!("Ok(Some(ip_number {}, {:?}, {} bytes))", p.ip_number.0, p.len_source, p.payload.len()),
        Err(e) => format!("Err({:?})", e),
    }
}

pub fn run_history(h: &History, ctx: &mut Ctx) -> Result<(), Failure> {
    let mut ex = Exec::new(h);
    ctx.class(&format!("history:streams={}", h.streams.len()));
    for k in h.streams.iter() {
        if k.proto_is_ext_header() {
            ctx.class("history:stream-with-ext-header-protocol");
        }
    }
    for (i, k) in h.streams.iter().enumerate() {
        for o in h.streams[..i].iter() {
            ctx.class(&format!("history:key-pair-differs-in:{}", k.relation(o)));
        }
    }
    let mut n_deliv = 0;
    while ex.at < h.ops.len() {
        if matches!(h.ops[ex.at], Op::Frag { .. } | Op::Unfrag { .. }) {
            n_deliv += 1;
        }
        // a tolerated (known) failure leaves crate and model out of step: stop this history
        if !ex.step(ctx)? {
            ctx.class("history:stopped-after-known-finding");
            break;
        }
        ex.at += 1;
    }
    ctx.class(match n_deliv {
        0..=5 => "history:deliveries<=5",
        6..=12 => "history:deliveries<=12",
        13..=24 => "history:deliveries<=24",
        _ => "history:deliveries<=40",
    });
    Ok(())
}

/// Every subsequence of a history is a history (the executor's model depends on the ops only), so a
/// failing history is minimised on the op level: truncate behind the failing op, drop ops, drop
/// streams nobody uses, neutralise cosmetic parameters — as long as the same signature fails.
fn minimise(h: &History, f: Failure, ctx: &Ctx) -> Failure {
    if f.signature.starts_with("C11|harness|") {
        return f;
    }
    let sig = f.signature.clone();
    let mut budget = 600u32;
    let mut fails = |c: &History| -> Option<Failure> {
        if budget == 0 {
            return None;
        }
        budget -= 1;
        let mut sc = Ctx::new(ctx.tier, ctx.seed, &[], "C11");
        sc.counting = false;
        match catch(|| run_history(c, &mut sc)) {
            Ok(Err(f2)) if f2.signature == sig => Some(f2),
            _ => None,
        }
    };
    let mut best = h.clone();
    let mut best_f = f;
    if let Some(at) = best_f.input.get("failing_op_index").and_then(|x| x.as_u64()) {
        let mut c = best.clone();
        c.ops.truncate(at as usize + 1);
        if c.ops.len() < best.ops.len() {
            if let Some(f2) = fails(&c) {
                best = c;
                best_f = f2;
            }
        }
    }
    for _pass in 0..3 {
        let mut changed = false;
        for chunk in [8usize, 4, 2, 1] {
            let mut i = best.ops.len();
            while i >= chunk && best.ops.len() > chunk {
                let mut c = best.clone();
                c.ops.drain(i - chunk..i);
                if let Some(f2) = fails(&c) {
                    best = c;
                    best_f = f2;
                    changed = true;
                    i = i.min(best.ops.len());
                } else {
                    i -= 1;
                }
            }
        }
        if !changed {
            break;
        }
    }
    // streams without ops
    let mut k = best.streams.len();
    while k > 0 {
        k -= 1;
        let used = best.ops.iter().any(|o| matches!(o, Op::Frag { s, .. } | Op::Unfrag { s, .. } if *s == k));
        if used || best.streams.len() <= 1 {
            continue;
        }
        let mut c = best.clone();
        c.streams.remove(k);
        for o in c.ops.iter_mut() {
            match o {
                Op::Frag { s, .. } | Op::Unfrag { s, .. } if *s > k => *s -= 1,
                _ => {}
            }
        }
        if let Some(f2) = fails(&c) {
            best = c;
            best_f = f2;
        }
    }
    // cosmetic parameters
    for i in 0..best.ops.len() {
        let mut c = best.clone();
        match &mut c.ops[i] {
            Op::Frag { ts, cos, pre, .. } => {
                *ts = 0;
                *cos = 0;
                *pre = 0;
            }
            Op::Unfrag { ts, cos, .. } => {
                *ts = 0;
                *cos = 0;
            }
            _ => {}
        }
        if c.ops[i] != best.ops[i] {
            if let Some(f2) = fails(&c) {
                best = c;
                best_f = f2;
            }
        }
    }
    best_f
}

// ------------------------------------------------------------------------------------------------
// enumerated sub-domain

fn perm_from_index(n: usize, mut idx: usize) -> Vec<usize> {
    let mut pool: Vec<usize> = (0..n).collect();
    let mut out = vec![];
    for i in (1..=n).rev() {
        let f: usize = (1..i).product();
        out.push(pool.remove(idx / f));
        idx %= f;
    }
    out
}

fn base_key(v6: bool) -> Key {
    let mut src = [0u8; 16];
    let mut dst = [0u8; 16];
    let n = if v6 { 16 } else { 4 };
    for i in 0..n {
        src[i] = 0x10 + i as u8;
        dst[i] = 0x80 + i as u8;
    }
    Key { v6, src, dst, ident: 0x1234, proto: 17, vlans: vec![(0x8100, 12)], chan: 7 }
}

fn related_key(b: &Key, rel: usize) -> Key {
    let mut k = b.clone();
    match rel {
        0 => k.ident += 1,
        1 => k.src[3] ^= 1,
        2 => k.dst[3] ^= 1,
        3 => k.proto = 6,
        4 => k.vlans[0].1 = 13,
        _ => k.chan = 8,
    }
    k
}

/// fragments of an n-fragment datagram: 8-byte fragments (the third one 16 bytes), last one 5 bytes
fn small_frags(n: usize) -> Vec<(u16, u32, bool)> {
    let mut v = vec![];
    let mut off8 = 0u16;
    for i in 0..n {
        let last = i + 1 == n;
        let len = if last {
            5
        } else if i == 2 {
            16
        } else {
            8
        };
        v.push((off8, len, !last));
        off8 += (len / 8) as u16;
    }
    v
}

const EXH_A: u64 = 2 * (2 + 6 + 24 + 120);
const EXH_B: u64 = 2 * 6 * 20 * 36;

fn exh_history(i: u64) -> History {
    if i < EXH_A {
        let v6 = i % 2 == 1;
        let mut j = (i / 2) as usize;
        let mut n = 2;
        loop {
            let f: usize = (1..=n).product();
            if j < f {
                break;
            }
            j -= f;
            n += 1;
        }
        let frags = small_frags(n);
        let mut ops: Vec<Op> = perm_from_index(n, j).iter().map(|x| Op::Frag { s: 0, gen: 0, off8: frags[*x].0, len: frags[*x].1, mf: frags[*x].2, ts: 0, cos: 0, pre: 0 }).collect();
        // "exactly once": one more copy of a fragment must not produce a second result
        let d = frags[j % n];
        ops.push(Op::Frag { s: 0, gen: 0, off8: d.0, len: d.1, mf: d.2, ts: 0, cos: 0, pre: 0 });
        History { streams: vec![base_key(v6)], ops }
    } else {
        let mut j = i - EXH_A;
        let v6 = j % 2 == 1;
        j /= 2;
        let rel = (j % 6) as usize;
        j /= 6;
        let pa = perm_from_index(3, (j % 6) as usize);
        j /= 6;
        let pb = perm_from_index(3, (j % 6) as usize);
        j /= 6;
        // j-th 6-bit mask with three bits set
        let mask = (0u32..64).filter(|m| m.count_ones() == 3).nth(j as usize).unwrap();
        let a = base_key(v6);
        let b = related_key(&a, rel);
        let frags = small_frags(3);
        let (mut ia, mut ib) = (0, 0);
        let mut ops = vec![];
        for bit in 0..6 {
            let (s, f) = if mask & (1 << bit) != 0 {
                ia += 1;
                (0usize, frags[pa[ia - 1]])
            } else {
                ib += 1;
                (1usize, frags[pb[ib - 1]])
            };
            ops.push(Op::Frag { s, gen: 0, off8: f.0, len: f.1, mf: f.2, ts: s as u8, cos: 0, pre: 0 });
        }
        History { streams: vec![a, b], ops }
    }
}

// ------------------------------------------------------------------------------------------------

/// `IpFragRange::merge` (public; the pool's completeness detection rests on it) over all pairs of ranges
/// with bounds from a small grid that includes the ends of the u16 domain: `Some(hull)` exactly when the
/// ranges overlap or touch (a byte range [start, end): touching = one ends where the other starts).
fn frag_range_merge(ctx: &mut Ctx) -> Result<(), Failure> {
    use etherparse::defrag::IpFragRange;
    let grid: [u16; 12] = [0, 1, 2, 3, 8, 9, 16, 1480, 32768, 65527, 65534, 65535];
    for &s1 in &grid {
        for &e1 in grid.iter().filter(|e| **e >= s1) {
            for &s2 in &grid {
                for &e2 in grid.iter().filter(|e| **e >= s2) {
                    ctx.eval(1);
                    let (a, b) = (IpFragRange { start: s1, end: e1 }, IpFragRange { start: s2, end: e2 });
                    let got = match catch(|| a.merge(b)) {
                        Ok(g) => g,
                        Err(p) => return ctx.fail(Failure::new("C11|IpFragRange::merge|panic".to_string(), "panic", format!("{:?}.merge({:?}): {}", a, b, p), json!({"k": "frag_range_merge"}))),
                    };
                    let connected = s1.max(s2) <= e1.min(e2);
                    let want = connected.then(|| IpFragRange { start: s1.min(s2), end: e1.max(e2) });
                    if got != want {
                        return ctx.fail(Failure::new("C11|IpFragRange::merge|hull-iff-connected".to_string(), "two sections merge into their hull exactly when they overlap or touch", format!("{:?}.merge({:?}) = {:?}, expected {:?}", a, b, got, want), json!({"k": "frag_range_merge"})));
                    }
                }
            }
        }
    }
    ctx.class("frag-range-merge:grid");
    Ok(())
}

impl Property for C11 {
    fn id(&self) -> &'static str {
        "C11"
    }
    fn post(&self, tier: Tier, seed: u64, root: &std::path::Path) -> Result<Value, Failure> {
        // thorough: coverage-guided search over the same tapes (libFuzzer + ASan on the generic
        // `prop_tape` target; budget by measured executions per second)
        if tier == Tier::Thorough {
            crate::fuzzapi::run_prop_fuzz_campaign("C11", root, seed, 100000, 8, self.tape_len())
        } else {
            Ok(Value::Null)
        }
    }
    fn tape_len(&self) -> usize {
        768
    }
    fn cases(&self, tier: Tier) -> u64 {
        tier.pick(1_000_000, 40_000_000)
    }
    fn run_tape(&self, tape: &[u8], ctx: &mut Ctx) -> Result<(), Failure> {
        let mut t = Tape::new(tape);
        let h = gen_history(&mut t);
        run_history(&h, ctx).map_err(|f| minimise(&h, f, ctx))
    }
    fn exhaustive(&self, _tier: Tier, shard: u64, nshards: u64, ctx: &mut Ctx) -> Result<(), Failure> {
        if shard == 0 {
            frag_range_merge(ctx)?;
        }
        let mut i = shard;
        while i < EXH_A + EXH_B {
            ctx.mark_exh(0, i);
            let h = exh_history(i);
            run_history(&h, ctx).map_err(|f| minimise(&h, f, ctx))?;
            i += nshards;
        }
        Ok(())
    }
    fn replay(&self, input: &Value, ctx: &mut Ctx) -> Result<(), Failure> {
        if input.get("k").and_then(|x| x.as_str()) == Some("frag_range_merge") {
            return frag_range_merge(ctx);
        }
        if let Some(e) = input.get("exh").and_then(|x| x.as_array()) {
            let i = e.get(1).and_then(|x| x.as_u64()).unwrap_or(0);
            return run_history(&exh_history(i.min(EXH_A + EXH_B - 1)), ctx);
        }
        match History::from_json(input) {
            Some(h) => run_history(&h, ctx),
            None => Err(Failure::new("C11|harness|unreadable-replay-input", "harness", "cannot decode the history", input.clone())),
        }
    }
    fn describe(&self, tape: &[u8]) -> Value {
        let mut t = Tape::new(tape);
        gen_history(&mut t).to_json()
    }
    fn rule(&self) -> String {
        "Generated: a history = 1..4 stream keys (IP version, addresses, identification, protocol, 0..3 VLAN ids, channel id; 65% of the \
         additional keys differ from an earlier one in exactly one component) and up to 40 deliveries (+ up to 16 return_buf/retain calls). \
         Per stream a sequence of datagrams (payload 0..65535 bytes, byte i = pattern(stream, generation, i)), each cut at random multiples \
         of 8 into 2..16 fragments, delivered in-order / reversed / last-first / evens-odds / random order, with duplicates, overlapping \
         re-cuts of the same data, empty fragments, retransmissions of a completed datagram, unfragmented packets carrying the same key, \
         inconsistent fragments (unaligned non-last, reaching beyond 65535, second end, data behind the end), return_buf (optionally \
         poisoned) and retain(timestamp mask). Every fragment is a real Ethernet II [+VLAN] + IPv4 (optionally with options) or IPv6 \
         [+hop-by-hop/destination/routing] + fragment header packet, encoded by the harness, sliced with SlicedPacket::from_ethernet and \
         given to IpDefragPool::process_sliced_packet; the same fragment sequence is added to one IpDefragBuf per stream. \
         Enumerated: all arrival orders of 2..5 fragments plus one duplicate, and all 20 interleavings x 6 x 6 orders of two 3-fragment \
         datagrams whose keys differ in exactly one of identification/source/destination/protocol/VLAN id/channel (IPv4 and IPv6). \
         One evaluation = one answer of the crate (pool delivery or IpDefragBuf::add + is_complete/end/sections/data) compared with the \
         reference model. Non-trivial = a completed reassembly that needed >= 3 distinct fragments arriving out of order, or had fragments \
         of another stream delivered in between, or started after a buffer had been given back (return_buf / retain eviction). Distinct = \
         (IP version, arrival permutation of the distinct fragments [exact rank sequence up to 5 fragments, else size bucket x \
         asc/desc/last-first/mixed], duplicates-or-overlap?, set of key relations to the interleaved streams, buffer reuse?)."
            .into()
    }
    fn assumptions(&self) -> Vec<String> {
        vec![
            "Trusted base: the harness' own packet encoders (Ethernet II, 802.1Q/802.1ad tags, IPv4 header + checksum, IPv6 header, generic/fragment extension headers) and the interval-set reference model.".into(),
            "Stream identity = (VLAN ids in nesting order, IP version, source, destination, identification, protocol, channel id) as documented on IpFragId; TPID, PCP/DEI, MAC addresses, TTL/hop limit, DSCP/flow label, IPv4 options and IPv6 extension headers in front of the fragment header vary per delivery and must not matter.".into(),
            "Overlapping fragments always carry identical bytes (both cuts come from the same datagram), so overlap resolution order is not tested.".into(),
            "A rejected fragment (unaligned, oversized, or conflicting with the end already announced) must not influence any later result: the model keeps the stream state exactly as it was and stays strict ('inconsistent fragments are rejected ... nothing before the delivery that supplies the last missing byte'). The model only stops predicting a stream ('loose', until it yields a payload or a retain evicts every timestamp it has seen) in the cases the crate leaves undocumented and lists below; in loose mode it still requires: unaligned / oversized fragments are errors, and any payload returned has the stream's protocol, a length announced by a last fragment and exactly the pattern bytes of one generation delivered into that stream.".into(),
            "Tolerance: a last fragment announcing an end below data that is already buffered, a non-last fragment ending exactly at the announced end, and retain() predicates that judge the first and the latest timestamp of a stream differently are treated the same way (any verdict, later payloads must be sound).".into(),
            "A payload of up to 65,535 bytes (MAX_IP_DEFRAG_LEN) must reassemble even though an IPv4 datagram of that payload size could not exist (header room).".into(),
            "Zero-length fragments are treated like any other fragment (they fill nothing; a zero-length last fragment announces the end).".into(),
            "Protocol numbers that etherparse itself decodes as extension headers (IPv4: 51; IPv6: 0, 43, 44, 51, 60) are generated rarely and reported under one dedicated signature (the slicer, not the pool, consumes fragment data as headers).".into(),
            "Uninitialised-memory reads (set_len on reserved capacity) are not detectable here; a leaked byte is only recognised by its value (pattern tag of another stream/generation, poison byte 0x5a written into returned buffers).".into(),
        ]
    }
    fn exhaustive_claim(&self, _tier: Tier) -> Option<String> {
        Some(format!(
            "{} histories: every arrival order of a datagram cut into 2, 3, 4, 5 fragments followed by one duplicate fragment (IPv4, IPv6); every interleaving (20) x arrival order (6 x 6) of two 3-fragment datagrams whose stream keys differ in exactly one of identification, source, destination, protocol, VLAN id, channel id (IPv4, IPv6)",
            EXH_A + EXH_B
        ))
    }
}
