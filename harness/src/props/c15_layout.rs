//! C15 helper: explicit wire LAYOUT TABLES (bit offset from the start of the header, MSB first, and
//! width of every field) plus a naive bit-level reference encoder / extractor.
//!
//! Sources of the tables (written from the formats, not from the crate):
//! * VLAN TCI: IEEE 802.1Q-2018 §9.6 (PCP 3, DEI 1, VID 12) followed by the 16 bit type.
//! * IPv4: RFC 791 §3.1 with the TOS octet split by RFC 2474 §3 (DSCP 6) and RFC 3168 §5 (ECN 2);
//!   flags octet: bit 0 reserved (must be zero), DF, MF, then the 13 bit fragment offset.
//! * IPv6: RFC 8200 §3 (version 4, traffic class 8 = DSCP 6 + ECN 2, flow label 20, ...).
//! * IPv6 fragment header: RFC 8200 §4.5 (next header 8, reserved 8, offset 13, res 2, M 1, id 32).
//! * MACsec SecTAG: IEEE 802.1AE-2018 §9.3–9.9 without the leading MACsec EtherType: TCI-AN octet
//!   (V, ES, SC, SCB, E, C, AN 2), SL octet (2 reserved bits zero, SL 6), PN 32, optional SCI 64
//!   (present iff SC); etherparse additionally treats the first two octets of unmodified user data
//!   (E = C = 0) as "next ether type" belonging to the header.
//! * IGMPv3 membership query: RFC 3376 §4.1 (type 0x11, max resp code, checksum, group address,
//!   Resv 4, S 1, QRV 3, QQIC 8, number of sources 16).

use std::sync::OnceLock;

#[derive(Clone, Copy, PartialEq, Eq, Debug)]
pub enum Kind {
    /// ordinary field, settable through the header struct and visible to decoders
    Var,
    /// field held in one of the bounded integer types under test
    Bounded,
    /// constant the encoder has to emit (version, reserved bits, type code); not exposed by decoders
    Const(u128),
    /// determined by the structural shape of the header (IHL from the options length, MACsec SC/E/C
    /// bits from sci/ptype); compared, never varied on its own
    Shape,
    /// overlapping raw view of bits that are also described by other fields (traffic class, raw
    /// bytes); only used to check decoders, not part of the tiling
    Alias,
}

#[derive(Clone, Copy, Debug)]
pub struct Field {
    pub name: &'static str,
    pub off: usize,
    pub width: usize,
    pub kind: Kind,
}

const fn f(name: &'static str, off: usize, width: usize, kind: Kind) -> Field {
    Field { name, off, width, kind }
}

#[derive(Clone, Copy, PartialEq, Eq, Debug)]
pub enum Hdr {
    Vlan,
    Ipv4,
    Ipv6,
    Frag,
    Macsec,
    Igmp,
}

pub const HDRS: [Hdr; 6] = [Hdr::Vlan, Hdr::Ipv4, Hdr::Ipv6, Hdr::Frag, Hdr::Macsec, Hdr::Igmp];

impl Hdr {
    pub fn name(self) -> &'static str {
        match self {
            Hdr::Vlan => "vlan",
            Hdr::Ipv4 => "ipv4",
            Hdr::Ipv6 => "ipv6",
            Hdr::Frag => "ipv6frag",
            Hdr::Macsec => "macsec",
            Hdr::Igmp => "igmpv3query",
        }
    }
    pub fn from_name(s: &str) -> Option<Hdr> {
        HDRS.iter().copied().find(|h| h.name() == s)
    }
    pub fn index(self) -> usize {
        HDRS.iter().position(|h| *h == self).unwrap()
    }
    /// number of structural shapes (IPv4: number of option words 0..=10; MACsec: (E,C) x SC)
    pub fn nshapes(self) -> usize {
        match self {
            Hdr::Ipv4 => 11,
            Hdr::Macsec => 8,
            _ => 1,
        }
    }
    /// length of the buffer used for decoding experiments (the maximum header length)
    pub fn buf_len(self) -> usize {
        match self {
            Hdr::Vlan => 4,
            Hdr::Ipv4 => 60,
            Hdr::Ipv6 => 40,
            Hdr::Frag => 8,
            Hdr::Macsec => 16,
            Hdr::Igmp => 12,
        }
    }
}

use Kind::*;

const VLAN: [Field; 4] = [f("pcp", 0, 3, Bounded), f("dei", 3, 1, Var), f("vlan_id", 4, 12, Bounded), f("ether_type", 16, 16, Var)];

pub const IPV4_IHL: usize = 1;
pub const IPV4_CSUM: usize = 12;
pub const IPV4_OPT0: usize = 15;
const IPV4_FIXED: [Field; 15] = [
    f("version", 0, 4, Const(4)),
    f("ihl", 4, 4, Shape),
    f("dscp", 8, 6, Bounded),
    f("ecn", 14, 2, Bounded),
    f("total_len", 16, 16, Var),
    f("identification", 32, 16, Var),
    f("reserved_flag", 48, 1, Const(0)),
    f("dont_fragment", 49, 1, Var),
    f("more_fragments", 50, 1, Var),
    f("fragment_offset", 51, 13, Bounded),
    f("ttl", 64, 8, Var),
    f("protocol", 72, 8, Var),
    f("header_checksum", 80, 16, Var),
    f("source", 96, 32, Var),
    f("destination", 128, 32, Var),
];
const OPT_NAMES: [&str; 10] = ["opt_word0", "opt_word1", "opt_word2", "opt_word3", "opt_word4", "opt_word5", "opt_word6", "opt_word7", "opt_word8", "opt_word9"];

const IPV6: [Field; 10] = [
    f("version", 0, 4, Const(6)),
    f("dscp", 4, 6, Bounded),
    f("ecn", 10, 2, Bounded),
    f("flow_label", 12, 20, Bounded),
    f("payload_length", 32, 16, Var),
    f("next_header", 48, 8, Var),
    f("hop_limit", 56, 8, Var),
    f("source", 64, 128, Var),
    f("destination", 192, 128, Var),
    f("traffic_class", 4, 8, Alias),
];

const FRAG: [Field; 6] = [
    f("next_header", 0, 8, Var),
    f("reserved", 8, 8, Const(0)),
    f("fragment_offset", 16, 13, Bounded),
    f("res", 29, 2, Const(0)),
    f("more_fragments", 31, 1, Var),
    f("identification", 32, 32, Var),
];

pub const MACSEC_SC: usize = 2;
pub const MACSEC_E: usize = 4;
pub const MACSEC_C: usize = 5;
const MACSEC_FIXED: [Field; 10] = [
    f("version", 0, 1, Const(0)),
    f("es", 1, 1, Var),
    f("sc", 2, 1, Shape),
    f("scb", 3, 1, Var),
    f("e", 4, 1, Shape),
    f("c", 5, 1, Shape),
    f("an", 6, 2, Bounded),
    f("sl_reserved", 8, 2, Const(0)),
    f("short_len", 10, 6, Bounded),
    f("packet_nr", 16, 32, Var),
];

const IGMP: [Field; 10] = [
    f("type", 0, 8, Const(0x11)),
    f("max_resp_code", 8, 8, Var),
    f("checksum", 16, 16, Var),
    f("group_address", 32, 32, Var),
    f("resv_flags", 64, 4, Var),
    f("s_flag", 68, 1, Var),
    f("qrv", 69, 3, Bounded),
    f("qqic", 72, 8, Var),
    f("num_of_sources", 80, 16, Var),
    f("raw_byte_8", 64, 8, Alias),
];

/// MACsec shape = ((E << 1) | C) << 1 | SC
pub fn macsec_shape(e: bool, c: bool, sc: bool) -> usize {
    ((e as usize) << 2) | ((c as usize) << 1) | sc as usize
}
pub fn macsec_shape_bits(shape: usize) -> (bool, bool, bool) {
    (shape & 4 != 0, shape & 2 != 0, shape & 1 != 0)
}

fn build_table(h: Hdr, shape: usize) -> Vec<Field> {
    match h {
        Hdr::Vlan => VLAN.to_vec(),
        Hdr::Ipv4 => {
            let mut t = IPV4_FIXED.to_vec();
            for i in 0..shape {
                t.push(f(OPT_NAMES[i], 160 + 32 * i, 32, Var));
            }
            t
        }
        Hdr::Ipv6 => IPV6.to_vec(),
        Hdr::Frag => FRAG.to_vec(),
        Hdr::Macsec => {
            let (e, c, sc) = macsec_shape_bits(shape);
            let mut t = MACSEC_FIXED.to_vec();
            let mut off = 48;
            if sc {
                t.push(f("sci", off, 64, Var));
                off += 64;
            }
            if !e && !c {
                t.push(f("next_ether_type", off, 16, Var));
            }
            t.push(f("tci_an_raw", 0, 8, Alias));
            t
        }
        Hdr::Igmp => IGMP.to_vec(),
    }
}

/// layout table of a header in a given shape (cached)
pub fn table(h: Hdr, shape: usize) -> &'static [Field] {
    static T: OnceLock<Vec<Vec<Vec<Field>>>> = OnceLock::new();
    let all = T.get_or_init(|| HDRS.iter().map(|h| (0..h.nshapes()).map(|s| build_table(*h, s)).collect()).collect());
    &all[h.index()][shape]
}

pub fn field_index(t: &[Field], name: &str) -> Option<usize> {
    t.iter().position(|f| f.name == name)
}

/// serialized length in bytes according to the table
pub fn table_len(t: &[Field]) -> usize {
    t.iter().filter(|f| f.kind != Alias).map(|f| f.off + f.width).max().unwrap_or(0) / 8
}

/// Harness self-check: the non-alias fields tile the header exactly (sorted, contiguous, no overlap,
/// whole number of bytes) and every alias lies inside it.
pub fn table_is_tiling(t: &[Field]) -> bool {
    let mut pos = 0;
    for fl in t.iter().filter(|f| f.kind != Alias) {
        if fl.off != pos || fl.width == 0 || fl.width > 128 {
            return false;
        }
        pos += fl.width;
    }
    pos % 8 == 0 && t.iter().filter(|f| f.kind == Alias).all(|a| a.off + a.width <= pos)
}

pub fn width_max(width: usize) -> u128 {
    if width >= 128 {
        u128::MAX
    } else {
        (1u128 << width) - 1
    }
}

/// naive MSB-first bit extraction
pub fn get_bits(b: &[u8], off: usize, width: usize) -> u128 {
    let mut v: u128 = 0;
    if off % 8 == 0 && width % 8 == 0 {
        for x in &b[off / 8..(off + width) / 8] {
            v = (v << 8) | *x as u128;
        }
        return v;
    }
    for i in off..off + width {
        let bit = (b[i / 8] >> (7 - (i % 8))) & 1;
        v = (v << 1) | bit as u128;
    }
    v
}

/// naive MSB-first bit placement (only touches the bits of the field)
pub fn put_bits(b: &mut [u8], off: usize, width: usize, v: u128) {
    assert!(v <= width_max(width), "harness bug: value {:#x} does not fit {} bits", v, width);
    for k in 0..width {
        let i = off + k;
        let bit = ((v >> (width - 1 - k)) & 1) as u8;
        let m = 1u8 << (7 - (i % 8));
        if bit == 1 {
            b[i / 8] |= m;
        } else {
            b[i / 8] &= !m;
        }
    }
}

/// byte mask with exactly the bits of the field set
pub fn field_mask(len: usize, fl: &Field) -> Vec<u8> {
    let mut m = vec![0u8; len];
    put_bits(&mut m, fl.off, fl.width, width_max(fl.width));
    m
}

/// reference encoder: every non-alias field value at its position
pub fn model_encode(t: &[Field], vals: &[u128]) -> Vec<u8> {
    let mut b = vec![0u8; table_len(t)];
    for (fl, v) in t.iter().zip(vals) {
        if fl.kind != Alias {
            put_bits(&mut b, fl.off, fl.width, *v);
        }
    }
    b
}

/// name of the non-alias field owning bit `bit`
pub fn owner_of_bit(t: &[Field], bit: usize) -> &'static str {
    t.iter().find(|f| f.kind != Alias && f.off <= bit && bit < f.off + f.width).map(|f| f.name).unwrap_or("beyond-header")
}

/// Fill the constant and shape-determined entries of a value vector.
pub fn fill_fixed(h: Hdr, shape: usize, t: &[Field], vals: &mut [u128]) {
    for (i, fl) in t.iter().enumerate() {
        match fl.kind {
            Const(c) => vals[i] = c,
            Alias => vals[i] = 0,
            _ => {}
        }
    }
    match h {
        Hdr::Ipv4 => vals[IPV4_IHL] = 5 + shape as u128,
        Hdr::Macsec => {
            let (e, c, sc) = macsec_shape_bits(shape);
            vals[MACSEC_SC] = sc as u128;
            vals[MACSEC_E] = e as u128;
            vals[MACSEC_C] = c as u128;
        }
        _ => {}
    }
}

/// background value vector: every settable field all-zero or all-ones
pub fn background(h: Hdr, shape: usize, ones: bool) -> Vec<u128> {
    let t = table(h, shape);
    let mut v: Vec<u128> = t.iter().map(|fl| if ones && matches!(fl.kind, Var | Bounded) { width_max(fl.width) } else { 0 }).collect();
    fill_fixed(h, shape, t, &mut v);
    v
}

/// Is `bytes` a decodable header according to the format (and the documented extra rules of the
/// crate: MACsec version bit must be 0 and an unmodified payload must not have short length 1)?
/// Returns the structural shape.
pub fn model_shape(h: Hdr, b: &[u8]) -> Option<usize> {
    match h {
        Hdr::Vlan => (b.len() >= 4).then_some(0),
        Hdr::Ipv4 => {
            if b.len() < 20 {
                return None;
            }
            let version = get_bits(b, 0, 4);
            let ihl = get_bits(b, 4, 4) as usize;
            (version == 4 && ihl >= 5 && b.len() >= ihl * 4).then(|| ihl - 5)
        }
        Hdr::Ipv6 => (b.len() >= 40 && get_bits(b, 0, 4) == 6).then_some(0),
        Hdr::Frag => (b.len() >= 8).then_some(0),
        Hdr::Macsec => {
            if b.len() < 6 || get_bits(b, 0, 1) != 0 {
                return None;
            }
            let sc = get_bits(b, 2, 1) == 1;
            let e = get_bits(b, 4, 1) == 1;
            let c = get_bits(b, 5, 1) == 1;
            let sl = get_bits(b, 10, 6);
            if !e && !c && sl == 1 {
                return None;
            }
            let need = 6 + if sc { 8 } else { 0 } + if !e && !c { 2 } else { 0 };
            (b.len() >= need).then(|| macsec_shape(e, c, sc))
        }
        // an 8 byte message of type 0x11 is an IGMPv1/v2 query; >= 12 bytes is the IGMPv3 query
        Hdr::Igmp => (b.len() >= 12 && b[0] == 0x11).then_some(0),
    }
}

/// Make a buffer decodable without touching the bytes listed in `keep`.
pub fn fix_valid(h: Hdr, b: &mut [u8], keep: &[usize]) {
    let free = |i: usize| !keep.contains(&i);
    match h {
        Hdr::Ipv4 if free(0) => {
            // version 4; IHL from the background nibble but at least 5
            let ihl = (b[0] & 0xf).max(5);
            b[0] = 0x40 | ihl;
        }
        Hdr::Ipv6 if free(0) => b[0] = (b[0] & 0x0f) | 0x60,
        Hdr::Macsec if free(0) => b[0] &= 0x7f,
        Hdr::Igmp if free(0) => b[0] = 0x11,
        _ => {}
    }
}

/// interesting values of a `width` bit field (sorted, deduplicated)
pub fn edge_values(width: usize) -> Vec<u128> {
    let max = width_max(width);
    let mut v = vec![0, 1 & max, 2 & max, max, max.saturating_sub(1), max.saturating_sub(2)];
    for k in 0..width {
        v.push(1u128 << k);
        v.push(max ^ (1u128 << k));
        v.push(width_max(k + 1));
        v.push(max ^ width_max(k + 1));
    }
    let p5 = u128::from_be_bytes([0x55; 16]) & max;
    v.push(p5);
    v.push(max ^ p5);
    v.sort();
    v.dedup();
    v
}
