//! C14 handlers: IPv4 / IPv6 header length setters and `IpHeaders::set_payload_len`.

use super::c14::*;
use super::c14_mem::mem;
use crate::engine::*;
use etherparse::err::ValueType;
use etherparse::*;

pub(super) const SRC4: [u8; 4] = [192, 168, 1, 1];
pub(super) const DST4: [u8; 4] = [10, 7, 0, 250];
pub(super) const SRC6: [u8; 16] = [0x20, 1, 0xd, 0xb8, 0, 1, 2, 3, 4, 5, 6, 7, 8, 9, 10, 11];
pub(super) const DST6: [u8; 16] = [0xfe, 0x80, 0, 0, 0, 0, 0, 0, 0xff, 0xee, 0xdd, 0xcc, 0xbb, 0xaa, 0x99, 0x88];

pub(super) fn v4_options(ol: u64) -> Ipv4Options {
    Ipv4Options::try_from(mem().pattern_at(100, ol as usize)).expect("C14 setup: IPv4 options of a valid length")
}

/// an IPv4 header with the given options length and otherwise arbitrary (cfg derived) fields
pub(super) fn v4_header(ol: u64, cfg: u64) -> Ipv4Header {
    Ipv4Header {
        dscp: IpDscp::try_new(((cfg >> 20) & 0x3f) as u8).unwrap(),
        ecn: IpEcn::try_new(((cfg >> 26) & 3) as u8).unwrap(),
        total_len: (cfg >> 8) as u16 ^ 0x5aa5,
        identification: (cfg >> 3) as u16 ^ 0x1234,
        dont_fragment: cfg & (1 << 28) != 0,
        more_fragments: cfg & (1 << 29) != 0,
        fragment_offset: IpFragOffset::try_new(((cfg >> 12) & 0x1fff) as u16).unwrap(),
        time_to_live: 64,
        protocol: IpNumber(17),
        header_checksum: 0xbeef,
        source: SRC4,
        destination: DST4,
        options: v4_options(ol),
    }
}

pub(super) fn v6_header(cfg: u64) -> Ipv6Header {
    Ipv6Header {
        traffic_class: (cfg >> 20) as u8,
        flow_label: Ipv6FlowLabel::try_new(((cfg >> 4) & 0xfffff) as u32).unwrap(),
        payload_length: (cfg >> 8) as u16 ^ 0x5aa5,
        next_header: IpNumber(17),
        hop_limit: 33,
        source: SRC6,
        destination: DST6,
    }
}

pub(super) fn ah(icv: u64) -> IpAuthHeader {
    IpAuthHeader::new(IpNumber(17), 0x0102_0304, 0x0a0b_0c0d, mem().pattern_at(300, icv as usize)).expect("C14 setup: AH with a valid ICV length")
}

fn raw_ext(payload: u64, off: usize) -> Ipv6RawExtHeader {
    Ipv6RawExtHeader::new_raw(IpNumber(59), mem().pattern_at(off, payload as usize)).expect("C14 setup: extension header with a valid payload length")
}

pub(super) fn v6_exts(e: &V6Ext) -> Ipv6Extensions {
    Ipv6Extensions {
        hop_by_hop_options: e.hbh.map(|p| raw_ext(p, 1000)),
        destination_options: e.dest.map(|p| raw_ext(p, 4000)),
        routing: e.routing.map(|p| Ipv6RoutingExtensions {
            routing: raw_ext(p, 7000),
            final_destination_options: e.fdest.map(|p| raw_ext(p, 10000)),
        }),
        fragment: if e.frag {
            Some(Ipv6FragmentHeader::new(IpNumber(59), IpFragOffset::try_new(0).unwrap(), false, 0x1122_3344))
        } else {
            None
        },
        auth: e.auth.map(ah),
    }
}

pub(super) fn run(k: &K, ctx: &mut Ctx) -> Result<(), Failure> {
    let l = lim(k.api, k.cfg);
    match k.api {
        Api::Ipv4New => {
            let v = k.len as u16;
            match Ipv4Header::new(v, 77, IpNumber(6), SRC4, DST4) {
                Ok(h) => {
                    verdict(k, ctx, "ipv4.total_len", &l, true, None, &[])?;
                    let b = h.to_bytes();
                    expect_eq(k, ctx, "ipv4.total_len", "encoded-field", be16(&b, 2), IPV4_BASE + k.len)?;
                    expect_eq(k, ctx, "ipv4.ihl", "encoded-field", u64::from(b[0]), 0x45)?;
                    expect_eq(k, ctx, "ipv4.rest", "encoded-other", (b[8], b[9], &b[12..16], &b[16..20]), (77, 6, &SRC4[..], &DST4[..]))?;
                }
                Err(e) => verdict(k, ctx, "ipv4.total_len", &l, false, Some(vtb(&e)), &[ValueType::Ipv4PayloadLength])?,
            }
        }
        Api::Ipv4SetPayloadLen => {
            let ol = cfg_ol(k.cfg);
            let mut h = v4_header(ol, k.cfg);
            let before = h.clone();
            let bb = before.to_bytes();
            expect_eq(k, ctx, "ipv4.total_len", "stated-max", u64::from(h.max_payload_len()), l.max)?;
            match h.set_payload_len(k.usize()) {
                Ok(()) => {
                    verdict(k, ctx, "ipv4.total_len", &l, true, None, &[])?;
                    let b = h.to_bytes();
                    expect_eq(k, ctx, "ipv4.total_len", "encoded-field", be16(&b, 2), IPV4_BASE + ol + k.len)?;
                    expect_eq(k, ctx, "ipv4.rest", "encoded-other", (&b[..2], &b[4..]), (&bb[..2], &bb[4..]))?;
                }
                Err(e) => {
                    verdict(k, ctx, "ipv4.total_len", &l, false, Some(vtb(&e)), &[ValueType::Ipv4PayloadLength])?;
                    expect_eq(k, ctx, "ipv4", "unchanged-on-reject", (&h, &h.to_bytes()[..]), (&before, &bb[..]))?;
                }
            }
        }
        Api::Ipv6SetPayloadLength => {
            let mut h = v6_header(k.cfg);
            let before = h.clone();
            let bb = before.to_bytes();
            match h.set_payload_length(k.usize()) {
                Ok(()) => {
                    verdict(k, ctx, "ipv6.payload_length", &l, true, None, &[])?;
                    let b = h.to_bytes();
                    expect_eq(k, ctx, "ipv6.payload_length", "encoded-field", be16(&b, 4), k.len)?;
                    expect_eq(k, ctx, "ipv6.rest", "encoded-other", (&b[..4], &b[6..]), (&bb[..4], &bb[6..]))?;
                }
                Err(e) => {
                    verdict(k, ctx, "ipv6.payload_length", &l, false, Some(vtb(&e)), &[ValueType::Ipv6PayloadLength])?;
                    expect_eq(k, ctx, "ipv6", "unchanged-on-reject", (&h, &h.to_bytes()[..]), (&before, &bb[..]))?;
                }
            }
        }
        Api::IpHeadersV4 => {
            let ol = cfg_ol(k.cfg);
            let icv = cfg_v4_ah(k.cfg);
            let ext = icv.map(|i| 12 + i).unwrap_or(0);
            let mut h = IpHeaders::Ipv4(v4_header(ol, k.cfg), Ipv4Extensions { auth: icv.map(ah) });
            let before = h.clone();
            let r = h.set_payload_len(k.usize());
            let (IpHeaders::Ipv4(h4, x4), IpHeaders::Ipv4(b4, bx4)) = (&h, &before) else {
                return ctx.fail(k.failure("ip", "variant-changed", "-", "IpHeaders changed its IP version".into()));
            };
            let (b, bb) = (h4.to_bytes(), b4.to_bytes());
            match r {
                Ok(()) => {
                    verdict(k, ctx, "ipv4.total_len", &l, true, None, &[])?;
                    expect_eq(k, ctx, "ipv4.total_len", "encoded-field", be16(&b, 2), IPV4_BASE + ol + ext + k.len)?;
                    expect_eq(k, ctx, "ipv4.rest", "encoded-other", (&b[..2], &b[4..], x4), (&bb[..2], &bb[4..], bx4))?;
                }
                Err(e) => {
                    verdict(k, ctx, "ipv4.total_len", &l, false, Some(vtb(&e)), &[ValueType::Ipv4PayloadLength])?;
                    expect_eq(k, ctx, "ip", "unchanged-on-reject", (&h, &b[..]), (&before, &bb[..]))?;
                }
            }
        }
        Api::IpHeadersV6 => {
            let e = cfg_v6_ext(k.cfg);
            let ext = e.wire_len();
            let mut h = IpHeaders::Ipv6(v6_header(k.cfg), v6_exts(&e));
            let before = h.clone();
            let r = h.set_payload_len(k.usize());
            let (IpHeaders::Ipv6(h6, x6), IpHeaders::Ipv6(b6, bx6)) = (&h, &before) else {
                return ctx.fail(k.failure("ip", "variant-changed", "-", "IpHeaders changed its IP version".into()));
            };
            let (b, bb) = (h6.to_bytes(), b6.to_bytes());
            match r {
                Ok(()) => {
                    verdict(k, ctx, "ipv6.payload_length", &l, true, None, &[])?;
                    expect_eq(k, ctx, "ipv6.payload_length", "encoded-field", be16(&b, 4), ext + k.len)?;
                    expect_eq(k, ctx, "ipv6.rest", "encoded-other", (&b[..4], &b[6..], x6), (&bb[..4], &bb[6..], bx6))?;
                }
                Err(e) => {
                    verdict(k, ctx, "ipv6.payload_length", &l, false, Some(vtb(&e)), &[ValueType::Ipv6PayloadLength])?;
                    expect_eq(k, ctx, "ip", "unchanged-on-reject", (&h, &b[..]), (&before, &bb[..]))?;
                }
            }
        }
        _ => unreachable!(),
    }
    Ok(())
}
