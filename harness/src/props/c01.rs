//! C01 (memory safety of decoding) and C02 (totality of decoding): one walk engine, two oracles.

use crate::engine::*;
use crate::gen::packet::*;
use crate::guard::GuardBuf;
use crate::obs::entries::{all_entries, Entry};
use crate::obs::walk::W;
use crate::tape::*;
use serde_json::{json, Value};
use std::cell::RefCell;

pub struct Case {
    pub start: Start,
    pub bytes: Vec<u8>,
    /// offsets at which all entry points are additionally started (layer starts)
    pub ranges: Vec<usize>,
    pub layers: Vec<String>,
    pub perturb: Vec<String>,
    pub kind: &'static str,
}

pub fn gen_case(tape: &[u8]) -> Case {
    let mut t = Tape::new(tape);
    match t.weighted(&[14, 2, 4, 3]) {
        3 => {
            // option areas (TCP options / NDP options) with lying length bytes, standalone or as the
            // option area of a TCP header / ICMPv6 neighbor solicitation that ends with the input
            let (area, is_tcp) = gen_tlv_area(&mut t);
            let bytes = if t.bool() {
                area
            } else if is_tcp {
                let mut a = area;
                a.truncate(40);
                while a.len() % 4 != 0 {
                    a.push(if t.bool() { 0 } else { 1 });
                }
                let mut h = t.bytes(12);
                h.push((((5 + a.len() / 4) as u8) << 4) | (t.u8() & 1));
                h.extend(t.bytes(7));
                h.extend(a);
                h
            } else {
                // ICMPv6 neighbor solicitation: 8 byte header + 16 byte target + options
                let mut h = vec![135u8, 0];
                h.extend(t.bytes(22));
                h.extend(area);
                h
            };
            Case { start: Start::EtherType(t.u16()), bytes, ranges: vec![0], layers: vec![if is_tcp { "tcp-options".into() } else { "ndp-options".into() }], perturb: vec!["tlv".into()], kind: "tlv-area" }
        }
        1 => {
            // every truncation point of golden packets
            let g = golden();
            let (start, full) = &g[t.below(g.len())];
            let cut = t.below(full.len() + 1);
            Case { start: *start, bytes: full[..cut].to_vec(), ranges: vec![0], layers: vec!["golden".into()], perturb: vec!["trunc".into()], kind: "golden-trunc" }
        }
        2 => {
            let n = match t.weighted(&[6, 3, 1]) {
                0 => t.below(48),
                1 => t.below(256),
                _ => t.below(2049),
            };
            let k = n.min(128);
            let mut bytes = t.bytes(k);
            let fill = t.u8();
            bytes.extend(std::iter::repeat(fill).take(n - k));
            let start = match t.below(4) {
                0 => Start::Ethernet,
                1 => Start::Ip,
                2 => Start::LinuxSll,
                _ => Start::EtherType(t.u16()),
            };
            Case { start, bytes, ranges: vec![0], layers: vec!["noise".into()], perturb: vec!["noise".into()], kind: "noise" }
        }
        _ => {
            let p = gen_packet(&mut t);
            let mut ranges = vec![0usize];
            for b in &p.intent.boundaries {
                if *b < p.bytes.len() && !ranges.contains(b) && ranges.len() < 7 {
                    ranges.push(*b);
                }
            }
            Case { start: p.start, bytes: p.bytes, ranges, layers: p.intent.layers, perturb: p.intent.perturb, kind: "grammar" }
        }
    }
}

fn golden() -> &'static Vec<(Start, Vec<u8>)> {
    static G: std::sync::OnceLock<Vec<(Start, Vec<u8>)>> = std::sync::OnceLock::new();
    G.get_or_init(golden_packets)
}

thread_local! {
    static ENTRIES: RefCell<Option<Vec<Entry>>> = const { RefCell::new(None) };
    static GUARD: RefCell<Option<GuardBuf>> = const { RefCell::new(None) };
}

fn with_entries<R>(f: impl FnOnce(&[Entry]) -> R) -> R {
    ENTRIES.with(|e| {
        let mut e = e.borrow_mut();
        if e.is_none() {
            *e = Some(all_entries(None));
        }
        f(e.as_ref().unwrap())
    })
}

fn case_input(c: &Case) -> Value {
    json!({"start": c.start.to_json(), "bytes_hex": hex(&c.bytes), "ranges": c.ranges})
}

fn case_from_input(v: &Value) -> Case {
    Case {
        start: Start::from_json(&v["start"]),
        bytes: input_bytes(v, "bytes_hex"),
        ranges: v["ranges"].as_array().map(|a| a.iter().map(|x| x.as_u64().unwrap_or(0) as usize).collect()).unwrap_or_else(|| vec![0]),
        layers: vec![],
        perturb: vec![],
        kind: "replay",
    }
}

/// one walk of all entry points over all ranges of `placed`; returns per-(range, entry) transcripts
struct WalkOut {
    transcripts: Vec<String>,
    names: Vec<String>,
    oob: Option<(String, String)>,
    iter_fault: Option<(String, String)>,
    panics: Vec<(String, String)>,
    oks: u32,
    ok_mask: u64,
    slices: u32,
    items: u32,
}

fn walk_all(placed: &[u8], ranges: &[usize], extra_et: Option<u16>, record: bool) -> WalkOut {
    let mut out = WalkOut { transcripts: vec![], names: vec![], oob: None, iter_fault: None, panics: vec![], oks: 0, ok_mask: 0, slices: 0, items: 0 };
    with_entries(|entries| {
        for r in ranges {
            if *r > placed.len() {
                continue;
            }
            let sub = &placed[*r..];
            for (ei, ent) in entries.iter().enumerate() {
                let mut w = W::new(sub, record);
                set_step(ent.name);
                let res = catch(|| (ent.run)(&mut w, sub));
                if let Err(msg) = res {
                    out.panics.push((ent.name.to_string(), msg.clone()));
                    w.line(&format!("PANIC {}", panic_location(&msg)));
                }
                if let Some(o) = w.oob.take() {
                    if out.oob.is_none() {
                        out.oob = Some((ent.name.to_string(), format!("range {}..: {}", r, o)));
                    }
                }
                if let Some(o) = w.iter_fault.take() {
                    if out.iter_fault.is_none() {
                        out.iter_fault = Some((ent.name.to_string(), format!("range {}..: {}", r, o)));
                    }
                }
                out.oks += w.oks;
                if w.oks > 0 && *r == 0 {
                    out.ok_mask ^= 1u64.rotate_left((ei % 64) as u32) ^ ((ei as u64) << 8);
                }
                out.slices += w.slices;
                out.items += w.items;
                if record {
                    out.transcripts.push(w.t);
                    out.names.push(format!("{}@{}", ent.name, r));
                }
            }
        }
        // the start's own ether type, if it is not one of the fixed ones
        if let Some(et) = extra_et {
            if !crate::obs::entries::ETHER_TYPES.contains(&et) {
                let extra = crate::obs::entries::whole_packet_entries(Some(et));
                for ent in extra.iter().filter(|e| e.name.contains(&format!("({:#06x})", et))) {
                    let mut w = W::new(placed, record);
                    set_step(ent.name);
                    let res = catch(|| (ent.run)(&mut w, placed));
                    if let Err(msg) = res {
                        out.panics.push((ent.name.to_string(), msg.clone()));
                        w.line(&format!("PANIC {}", panic_location(&msg)));
                    }
                    if let Some(o) = w.oob.take() {
                        if out.oob.is_none() {
                            out.oob = Some((ent.name.to_string(), o));
                        }
                    }
                    if let Some(o) = w.iter_fault.take() {
                        if out.iter_fault.is_none() {
                            out.iter_fault = Some((ent.name.to_string(), o));
                        }
                    }
                    out.oks += w.oks;
                    out.slices += w.slices;
                    out.items += w.items;
                    if record {
                        out.transcripts.push(w.t);
                        out.names.push(ent.name.to_string());
                    }
                }
            }
        }
    });
    out
}

fn extra_et(c: &Case) -> Option<u16> {
    match c.start {
        Start::EtherType(e) => Some(e),
        _ => None,
    }
}

fn classes(c: &Case, ctx: &mut Ctx) {
    ctx.class(&format!("kind:{}", c.kind));
    ctx.class(&format!("start:{}", c.start.kind()));
    ctx.class(&format!("layers:{}", c.layers.len().min(8)));
    for p in &c.perturb {
        let p = p.split(':').take(3).collect::<Vec<_>>().join(":");
        ctx.class(&format!("perturb:{}", p));
    }
    if c.perturb.is_empty() {
        ctx.class("perturb:none");
    }
    ctx.class(&format!("len:{}", match c.bytes.len() {
        0 => "0",
        1..=19 => "1-19",
        20..=63 => "20-63",
        64..=255 => "64-255",
        256..=1023 => "256-1023",
        _ => ">=1024",
    }));
}

// ------------------------------------------------------------------------------------------------

pub struct C01;

/// Fill the stack area the next walk is going to use with a recognisable byte, a different one per
/// placement: a result computed from never-written memory (the crate keeps `MaybeUninit` buffers, e.g.
/// in `ArpPacket`) then differs between the placements instead of repeating the same leftovers.
#[inline(never)]
fn dirty_stack(pattern: u8) {
    let mut a = [pattern; 48 * 1024];
    std::hint::black_box(&mut a);
}

pub fn c01_check(c: &Case, ctx: &mut Ctx) -> Result<(), Failure> {
    classes(c, ctx);
    let et = extra_et(c);
    // placement C: inside a heap Vec surrounded by 0x5a poison
    let mut heap = vec![0x5au8; c.bytes.len() + 64];
    heap[32..32 + c.bytes.len()].copy_from_slice(&c.bytes);
    dirty_stack(0xc3);
    let out_c = walk_all(&heap[32..32 + c.bytes.len()], &c.ranges, et, true);
    let (out_a, out_b) = GUARD.with(|g| {
        let mut g = g.borrow_mut();
        if g.is_none() {
            *g = Some(GuardBuf::new(2));
        }
        let g = g.as_mut().unwrap();
        let a = {
            let placed = g.place_end(&c.bytes, 0xa5);
            dirty_stack(0x3c);
            walk_all(placed, &c.ranges, et, true)
        };
        let b = {
            let placed = g.place_start(&c.bytes, 0xa5);
            dirty_stack(0x96);
            walk_all(placed, &c.ranges, et, true)
        };
        (a, b)
    });
    ctx.eval(3 * out_c.transcripts.len() as u64);
    // (2) every returned slice inside the input
    for (pl, o) in [("heap", &out_c), ("end-guard", &out_a), ("start-guard", &out_b)] {
        if let Some((name, what)) = &o.oob {
            ctx.fail(Failure::new(format!("C01|{}|slice-outside-input", name), "returned slice lies inside the input", format!("placement {}: {}", pl, what), case_input(c)))?;
        }
    }
    // (3) result independent of location and surrounding bytes
    for (pl, o) in [("end-guard", &out_a), ("start-guard", &out_b)] {
        for i in 0..out_c.transcripts.len() {
            if out_c.transcripts[i] != o.transcripts[i] {
                let (la, lb) = first_diff(&out_c.transcripts[i], &o.transcripts[i]);
                ctx.fail(Failure::new(
                    format!("C01|{}|placement-dependent", out_c.names[i].split('@').next().unwrap_or("")),
                    "observable result depends only on the bytes of the slice",
                    format!("{}: heap placement gives `{}`, {} placement gives `{}`", out_c.names[i], la, pl, lb),
                    case_input(c),
                ))?;
            }
        }
    }
    // non-trivial rule
    let trunc = c.perturb.iter().any(|p| p == "trunc");
    if (out_c.oks >= 3 && out_c.slices >= 10) || trunc {
        let sig = format!("{}|{}|{:x}|{}", c.start.kind(), c.layers.join(">"), out_c.ok_mask, trunc);
        ctx.nontrivial(&sig, || json!({"start": c.start.name(), "layers": c.layers, "perturb": c.perturb, "bytes_hex": hex(&c.bytes[..c.bytes.len().min(96)]), "len": c.bytes.len(), "entry_points_ok": out_c.oks, "slices_checked": out_c.slices}));
    }
    Ok(())
}

/// C01 for the ASan fuzz targets: one placement - an exactly sized heap allocation, whose red zones
/// AddressSanitizer watches - and no transcripts (location independence is the business of the
/// three-placement check above, which costs ~100x more under ASan).
pub fn c01_check_asan(c: &Case, ctx: &mut Ctx) -> Result<(), Failure> {
    let exact: Box<[u8]> = c.bytes.clone().into_boxed_slice();
    let o = walk_all(&exact, &c.ranges, extra_et(c), false);
    ctx.eval(1);
    if let Some((name, what)) = &o.oob {
        ctx.fail(Failure::new(format!("C01|{}|slice-outside-input", name), "returned slice lies inside the input", format!("placement exact-heap: {}", what), case_input(c)))?;
    }
    Ok(())
}

fn first_diff(a: &str, b: &str) -> (String, String) {
    let mut ia = a.lines();
    let mut ib = b.lines();
    loop {
        match (ia.next(), ib.next()) {
            (Some(x), Some(y)) => {
                if x != y {
                    return (x.chars().take(300).collect(), y.chars().take(300).collect());
                }
            }
            (x, y) => return (x.unwrap_or("<end>").chars().take(300).collect(), y.unwrap_or("<end>").chars().take(300).collect()),
        }
    }
}

impl Property for C01 {
    fn id(&self) -> &'static str {
        "C01"
    }
    fn post(&self, tier: Tier, seed: u64, root: &std::path::Path) -> Result<Value, Failure> {
        if tier == Tier::Thorough {
            crate::fuzzapi::run_fuzz_campaign("C01", root, seed, 20_000, 8)
        } else {
            Ok(Value::Null)
        }
    }
    fn tape_len(&self) -> usize {
        640
    }
    fn cases(&self, tier: Tier) -> u64 {
        tier.pick(24_000, 400_000)
    }
    fn also_release(&self) -> bool {
        true
    }
    fn run_tape(&self, tape: &[u8], ctx: &mut Ctx) -> Result<(), Failure> {
        let c = gen_case(tape);
        c01_check(&c, ctx)
    }
    fn replay(&self, input: &Value, ctx: &mut Ctx) -> Result<(), Failure> {
        c01_check(&case_from_input(input), ctx)
    }
    fn describe(&self, tape: &[u8]) -> Value {
        let c = gen_case(tape);
        let mut v = case_input(&c);
        v["layers"] = json!(c.layers);
        v["perturb"] = json!(c.perturb);
        v
    }
    fn rule(&self) -> String {
        "case = tape -> (packet grammar 70% | every-truncation-point of golden packets 10% | noise 20%); each input is fed to every public decoding entry point (whole-packet strict/lax x start points x ether types, 15 IP front ends, every *Slice::from_slice / *Header::from_slice / read via io::Cursor / read_limited / skip_*; list in obs/entries.rs) at offset 0 and at every generated layer start, and every accessor/conversion/iterator of each result is walked (obs/walk.rs), in three placements (end against a PROT_NONE page, start behind a PROT_NONE page with poison behind, heap with other poison; the stack below the walk is pre-filled with a different byte per placement so that reads of never-written memory show up as a difference) and in two build profiles (release: real over-reads hit the guard page; checked: debug assertions + core's unsafe-precondition checks abort). evaluations = entry-point walks. Non-trivial = >=3 entry points succeeded and >=10 returned slices were bounds-checked, or the input is a truncation; distinct = (start, generated layer sequence, set of succeeding entry points, truncated?)."
            .into()
    }
    fn assumptions(&self) -> Vec<String> {
        vec![
            "UB is detected only through a symptom: fatal signal (guard page / unsafe-precondition abort / debug assertion), a returned slice outside the input, or a transcript difference between placements; UB without such a symptom (e.g. aliasing) is out of reach".into(),
            "zero-length slices are not bounds-checked (they touch no memory; the crate hands out `&[]` constants)".into(),
            "public `unsafe fn from_slice_unchecked` constructors are outside the property (caller contract)".into(),
        ]
    }
}

// ------------------------------------------------------------------------------------------------

pub struct C02;

pub fn c02_check(c: &Case, ctx: &mut Ctx) -> Result<(), Failure> {
    classes(c, ctx);
    let out = walk_all(&c.bytes, &c.ranges, extra_et(c), false);
    ctx.eval((c.ranges.len() * with_entries(|e| e.len())) as u64);
    for (name, msg) in &out.panics {
        ctx.fail(Failure::new(format!("C02|{}|panic|{}", strip_param(name), panic_location(msg)), "every call returns normally (no panic / overflow)", format!("{} panicked: {}", name, msg), case_input(c)))?;
    }
    if let Some((name, what)) = &out.iter_fault {
        ctx.fail(Failure::new(format!("C02|{}|iterator", strip_param(name)), "iterators yield at most len+1 items and stay exhausted", what.clone(), case_input(c)))?;
    }
    let rejected_late = c.layers.len() >= 2 && !c.perturb.is_empty();
    if rejected_late || out.items >= 2 {
        let sig = format!("{}|{}|{}|{}", c.start.kind(), c.layers.join(">"), c.perturb.join(","), out.items.min(6));
        ctx.nontrivial(&sig, || json!({"start": c.start.name(), "layers": c.layers, "perturb": c.perturb, "bytes_hex": hex(&c.bytes[..c.bytes.len().min(96)]), "len": c.bytes.len(), "entry_points_ok": out.oks, "iterator_items": out.items}));
    }
    Ok(())
}

fn strip_param(name: &str) -> String {
    name.split('(').next().unwrap_or(name).to_string()
}

impl Property for C02 {
    fn hang_is_violation(&self) -> bool {
        true
    }
    fn id(&self) -> &'static str {
        "C02"
    }
    fn post(&self, tier: Tier, seed: u64, root: &std::path::Path) -> Result<Value, Failure> {
        if tier == Tier::Thorough {
            crate::fuzzapi::run_fuzz_campaign("C02", root, seed, 20_000, 8)
        } else {
            Ok(Value::Null)
        }
    }
    fn tape_len(&self) -> usize {
        640
    }
    fn cases(&self, tier: Tier) -> u64 {
        tier.pick(80_000, 1_500_000)
    }
    fn run_tape(&self, tape: &[u8], ctx: &mut Ctx) -> Result<(), Failure> {
        let c = gen_case(tape);
        c02_check(&c, ctx)
    }
    fn replay(&self, input: &Value, ctx: &mut Ctx) -> Result<(), Failure> {
        if let Some(v) = input.get("fmt_value").and_then(|x| x.as_u64()) {
            return super::c02_fmt::replay(v as u16, ctx);
        }
        c02_check(&case_from_input(input), ctx)
    }
    fn exhaustive(&self, _tier: Tier, shard: u64, nshards: u64, ctx: &mut Ctx) -> Result<(), Failure> {
        // formatters of the number newtypes over their complete domains
        super::c02_fmt::enumerate(shard, nshards, ctx)
    }
    fn exhaustive_claim(&self, _tier: Tier) -> Option<String> {
        Some("Debug/Display (and keyword_str/protocol_str) of EtherType, ArpHardwareId, ArpOperation, LinuxSllPacketType, LinuxNonstandardEtherType, LinuxSllProtocolType, IpNumber, NdpOptionType and the bounded integer types are rendered for every value of their u16 / u8 domain".into())
    }
    fn describe(&self, tape: &[u8]) -> Value {
        C01.describe(tape)
    }
    fn rule(&self) -> String {
        "same inputs and entry points as C01 (one placement, `checked` profile: overflow checks and debug assertions on); every entry point + accessor walk runs under catch_unwind; Display, Debug and source() of every error are rendered; every option/extension/NDP iterator is driven to exhaustion with an item bound of len+1 and must then stay exhausted. Enumerated besides: the formatters of the number newtypes over all 65 536 / 256 values. evaluations = entry-point walks. Non-trivial = generated packet with >=2 layers and a perturbation (rejected behind the first header), or >=2 iterator items; distinct = (start, layer sequence, perturbation set, iterator item bucket)."
            .into()
    }
    fn assumptions(&self) -> Vec<String> {
        vec![
            "termination is decided only as bounded progress of iterators and by the engine's time limit (a time-limit hit is reported as inconclusive, exit 2, never as a violation)".into(),
            "non-unwinding aborts are caught by the engine as a worker crash and reported under this property when they occur in this run".into(),
        ]
    }
}
