//! C17 — typed control-message views (ICMPv4/ICMPv6 type decoding, NDP payloads and option iterator,
//! IGMP headers and group records, the Ethernet/IPv4 view of ARP) follow their formats.
//!
//! * `c17_ref` — reference tables / walkers written from the RFCs (no etherparse code)
//! * `c17_chk` — comparison of every view with the reference
//! * this file — generators (tape + enumerated sub-domains), replay, evidence texts
//!
//! A case is a pair (role, bytes): the byte string is handed to the decoders of one protocol role
//! (`icmp4`, `icmp6`, `igmp`, `arp`, `optarea` = NDP option area, `ndppayload` = typed NDP payload
//! constructors, `codes` = the code helper functions). Replay files store exactly that pair.

use super::c17_chk::*;
use super::c17_ref as r;
use crate::engine::*;
use crate::tape::*;
use serde_json::{json, Value};

pub struct C17;

const ROLES: [&str; 7] = ["icmp4", "icmp6", "igmp", "arp", "optarea", "ndppayload", "codes"];
/// roles that take arbitrary byte strings (used for the "noise" cross feed)
const NOISE_ROLES: [&str; 5] = ["icmp4", "icmp6", "igmp", "arp", "optarea"];

fn role_static(p: &str) -> Option<&'static str> {
    ROLES.iter().copied().find(|x| *x == p)
}

pub fn check(role: &'static str, bytes: &[u8], ctx: &mut Ctx, classes: bool) -> Result<(), Failure> {
    let mut ck = Ck { ctx, proto: role, bytes, classes };
    match role {
        "icmp4" => check_icmp4(&mut ck),
        "icmp6" => check_icmp6(&mut ck),
        "igmp" => check_igmp(&mut ck),
        "arp" => check_arp(&mut ck),
        "optarea" => check_optarea(&mut ck),
        "ndppayload" => check_ndp_payload_ctors(&mut ck),
        "codes" => {
            let g = |i: usize| bytes.get(i).copied().unwrap_or(0);
            check_icmp4_code_helpers(&mut ck, g(0), u16::from_be_bytes([g(1), g(2)]))?;
            check_icmp6_code_helpers(&mut ck, g(0))
        }
        _ => Ok(()),
    }
}

// ------------------------------------------------------------------------------------------------
// tape generators

fn fill(n: usize, seed: u8) -> Vec<u8> {
    (0..n).map(|i| (seed as usize).wrapping_add(i * 29 + (i >> 4) * 7 + 1) as u8).collect()
}

/// `n` bytes: the first 64 from the tape (with all-zero / all-ones corners), the rest a pattern
fn body(t: &mut Tape, n: usize) -> Vec<u8> {
    let k = n.min(64);
    let mut v = t.bytes_corner(k);
    if n > k {
        let seed = t.u8();
        v.extend(fill(n - k, seed));
    }
    v
}

/// one NDP option appended to `out`
fn gen_opt(t: &mut Tape, out: &mut Vec<u8>) {
    let kind = t.weighted(&[3, 3, 3, 2, 3, 3]);
    let (ty, proper): (u8, u8) = match kind {
        0 => (1, t.pick(&[1u8, 1, 2, 3])),
        1 => (2, t.pick(&[1u8, 1, 2, 3])),
        2 => (3, 4),
        3 => (4, 1 + t.below(6) as u8),
        4 => (5, 1),
        _ => (t.pick(&[0u8, 6, 7, 8, 9, 13, 14, 24, 25, 31, 38, 127, 128, 253, 254, 255]), 1 + t.below(4) as u8),
    };
    // length byte: exact / 0 / 1 / -1 / +1 / 255 / anything
    let m = t.weighted(&[20, 1, 1, 1, 1, 1, 1]);
    let units = match m {
        0 => proper,
        1 => 0,
        2 => 1,
        3 => proper - 1,
        4 => proper + 1,
        5 => 255,
        _ => t.u8(),
    };
    // does the body follow the (wrong) length byte or the proper size of the kind?
    let body_units = if m != 0 && t.bool() { units.clamp(1, 6) } else { proper };
    out.push(ty);
    out.push(units);
    let n = body_units as usize * 8 - 2;
    out.extend(t.bytes(n.min(30)));
    if n > 30 {
        let seed = t.u8();
        out.extend(fill(n - 30, seed));
    }
}

/// perturbation of the end of an option area that starts at `area_start`
fn opt_tail(t: &mut Tape, b: &mut Vec<u8>, area_start: usize) {
    match t.weighted(&[12, 2, 1, 2, 1, 1]) {
        0 => {}
        1 => {
            let k = 1 + t.below(9);
            let keep = b.len().saturating_sub(k).max(area_start);
            b.truncate(keep);
        }
        2 => {
            let area = b.len() - area_start;
            let keep = t.below(area + 1);
            b.truncate(area_start + keep);
        }
        3 => {
            let k = 1 + t.below(7);
            b.extend(t.bytes(k));
        }
        4 => {
            b.push(t.u8());
            b.push(0);
        }
        _ => b.push(5),
    }
}

fn gen_ndp(t: &mut Tape) -> Vec<u8> {
    let ty = t.pick(&[133u8, 134, 135, 136, 137]);
    let code = if t.chance(1, 16) { t.u8_corner() } else { 0 };
    let mut b = vec![ty, code, t.u8(), t.u8()];
    b.extend(t.bytes_corner(4));
    let fixed = match ty {
        134 => 8,
        135 | 136 => 16,
        137 => 32,
        _ => 0,
    };
    b.extend(t.bytes_corner(fixed));
    if t.chance(1, 12) {
        // message cut inside (or right after) the fixed part
        let keep = t.below(fixed + 1);
        b.truncate(8 + keep);
        return b;
    }
    let n = t.weighted(&[3, 4, 4, 3, 2, 1]);
    for _ in 0..n {
        gen_opt(t, &mut b);
    }
    opt_tail(t, &mut b, 8 + fixed);
    b.truncate(300);
    b
}

fn gen_optarea(t: &mut Tape) -> Vec<u8> {
    let mut b = vec![];
    if t.chance(1, 5) {
        // short noise with plausible type / length bytes
        let n = t.below(48);
        b = t.bytes(n);
        if n > 0 {
            b[0] = t.below(8) as u8;
        }
        if n > 1 {
            b[1] = t.below(6) as u8;
        }
        return b;
    }
    let n = t.weighted(&[1, 4, 4, 3, 2]);
    for _ in 0..n {
        gen_opt(t, &mut b);
    }
    opt_tail(t, &mut b, 0);
    b.truncate(300);
    b
}

/// a code byte around the assigned range of the type
fn gen_code(t: &mut Tape, max: Option<u8>) -> u8 {
    match t.weighted(&[5, 5, 1]) {
        0 => 0,
        1 => t.below(max.unwrap_or(0) as usize + 3) as u8,
        _ => t.u8_corner(),
    }
}

fn gen_icmp_len(t: &mut Tape, timestamp: bool) -> usize {
    if timestamp {
        match t.weighted(&[6, 2, 2, 1, 1, 1]) {
            0 => 20,
            1 => 19,
            2 => 21,
            3 => 8,
            4 => t.below(8),
            _ => 8 + t.below(60),
        }
    } else {
        match t.weighted(&[4, 4, 2, 1, 1, 1, 1]) {
            0 => 8,
            1 => 9 + t.below(56),
            2 => t.below(8),
            3 => 20,
            4 => 21,
            5 => 19,
            _ => 8 + t.below(293),
        }
    }
}

fn gen_icmp4(t: &mut Tape) -> Vec<u8> {
    // the IANA table (assigned, deprecated, experimental) plus neighbours of the modelled types
    let ty = match t.weighted(&[12, 6, 1]) {
        0 => t.pick(&[0u8, 3, 5, 8, 11, 12, 13, 14]),
        1 => t.pick(&[4u8, 6, 9, 10, 15, 16, 17, 18, 19, 30, 40, 42, 43, 253, 254, 1, 2, 7, 20, 255]),
        _ => t.u8(),
    };
    let code = gen_code(t, r::icmp4_max_code(ty));
    let n = gen_icmp_len(t, ty == 13 || ty == 14);
    let mut b = body(t, n);
    if n > 0 {
        b[0] = ty;
    }
    if n > 1 {
        b[1] = code;
    }
    b
}

fn gen_icmp6(t: &mut Tape) -> Vec<u8> {
    let ty = match t.weighted(&[10, 4, 6, 1]) {
        0 => t.pick(&[1u8, 2, 3, 4, 128, 129]),
        1 => t.pick(&[133u8, 134, 135, 136, 137]),
        2 => t.pick(&[0u8, 5, 100, 101, 127, 130, 131, 132, 138, 139, 140, 141, 142, 143, 144, 151, 155, 160, 161, 200, 201, 255]),
        _ => t.u8(),
    };
    let code = gen_code(t, r::icmp6_max_code(ty));
    let n = gen_icmp_len(t, false);
    let mut b = body(t, n);
    if n > 0 {
        b[0] = ty;
    }
    if n > 1 {
        b[1] = code;
    }
    b
}

fn gen_igmp(t: &mut Tape) -> Vec<u8> {
    let ty = match t.weighted(&[5, 2, 2, 2, 5, 3, 1]) {
        0 => 0x11u8,
        1 => 0x12,
        2 => 0x16,
        3 => 0x17,
        4 => 0x22,
        // neighbours and other registered IGMP types (DVMRP, PIMv1, mtrace, MRD)
        5 => t.pick(&[0x10u8, 0x13, 0x14, 0x15, 0x18, 0x21, 0x23, 0x1e, 0x1f, 0x30, 0x31, 0x32, 0x00, 0xff]),
        _ => t.u8(),
    };
    let mut b = vec![ty, t.u8_corner(), t.u8(), t.u8()];
    b.extend(t.bytes_corner(4));
    let announced = |t: &mut Tape, n: usize| -> u16 {
        match t.weighted(&[8, 1, 1, 1]) {
            0 => n as u16,
            1 => n as u16 + 1,
            2 => (n as u16).saturating_sub(1),
            _ => t.u16_corner(),
        }
    };
    match ty {
        0x11 => match t.weighted(&[3, 5, 3, 2]) {
            0 => {}
            1 => {
                let n = t.weighted(&[2, 3, 2, 1, 1]);
                let a = announced(t, n);
                b.push(t.u8_corner());
                b.push(t.u8());
                b.extend(a.to_be_bytes());
                b.extend(t.bytes(4 * n));
                match t.weighted(&[8, 1, 1]) {
                    0 => {}
                    1 => {
                        let k = 1 + t.below(3);
                        b.extend(t.bytes(k));
                    }
                    _ => {
                        let k = 1 + t.below(4 * n + 1);
                        let keep = b.len().saturating_sub(k).max(8);
                        b.truncate(keep);
                    }
                }
            }
            2 => {
                let k = 1 + t.below(3);
                b.extend(t.bytes(k));
            }
            _ => {
                let n = t.below(41);
                let mut x = body(t, n);
                for (i, v) in b.iter().enumerate().take(2.min(n)) {
                    x[i] = *v;
                }
                b = x;
            }
        },
        0x22 => {
            let nrec = t.weighted(&[1, 4, 3, 2, 1]);
            let mut recs: Vec<u8> = vec![];
            for _ in 0..nrec {
                let rt = if t.chance(1, 6) { t.u8_corner() } else { 1 + t.below(6) as u8 };
                let aux = t.weighted(&[6, 2, 1]);
                let nsrc = t.weighted(&[3, 3, 2, 1]);
                let nsrc_field = if t.chance(1, 12) { t.u16_corner() } else { nsrc as u16 };
                recs.push(rt);
                recs.push(aux as u8);
                recs.extend(nsrc_field.to_be_bytes());
                recs.extend(t.bytes(4 + 4 * nsrc + 4 * aux));
            }
            let a = announced(t, nrec);
            b[6..8].copy_from_slice(&a.to_be_bytes());
            b.extend(recs);
            match t.weighted(&[8, 2, 1]) {
                0 => {}
                1 => {
                    let k = 1 + t.below(12);
                    let keep = b.len().saturating_sub(k).max(7);
                    b.truncate(keep);
                }
                _ => {
                    let k = 1 + t.below(7);
                    b.extend(t.bytes(k));
                }
            }
        }
        _ => match t.weighted(&[6, 2, 2, 1]) {
            0 => {}
            1 => {
                let keep = t.below(8);
                b.truncate(keep);
            }
            2 => {
                let k = 1 + t.below(5);
                b.extend(t.bytes(k));
            }
            _ => {
                let k = 1 + t.below(32);
                b.extend(t.bytes(k));
            }
        },
    }
    b
}

fn gen_arp(t: &mut Tape) -> Vec<u8> {
    let mode = t.weighted(&[4, 7, 3, 1]);
    let (mut hrd, mut pro, mut hln, mut pln) = (1u16, 0x0800u16, 6u8, 4u8);
    // address bytes laid out for 6/4 although the size bytes say otherwise
    let mut lie = false;
    match mode {
        0 => {}
        1 => {
            let nm = 1 + t.weighted(&[5, 2, 1]);
            for _ in 0..nm {
                match t.below(4) {
                    0 => hrd = t.pick(&[0u16, 2, 6, 0x0100, 0x0101, 0xffff, 0x0800]),
                    1 => pro = t.pick(&[0x0806u16, 0x86dd, 0x0008, 0x0801, 0x0000, 0xffff, 0x0001]),
                    2 => hln = t.pick(&[0u8, 5, 7, 8, 4, 255, 1]),
                    _ => pln = t.pick(&[0u8, 3, 5, 16, 6, 255, 1]),
                }
            }
            lie = t.chance(1, 4);
        }
        2 => {
            hrd = t.u16_corner();
            pro = t.u16_corner();
            let small = |t: &mut Tape| -> u8 {
                if t.bool() {
                    t.pick(&[0u8, 1, 2, 4, 6, 8, 16, 20, 64, 255])
                } else {
                    t.below(32) as u8
                }
            };
            hln = small(t);
            pln = small(t);
        }
        _ => {
            let n = t.below(64);
            return body(t, n);
        }
    }
    let op = match t.weighted(&[3, 3, 1]) {
        0 => 1,
        1 => 2,
        _ => t.u16_corner(),
    };
    let mut b = vec![];
    b.extend(hrd.to_be_bytes());
    b.extend(pro.to_be_bytes());
    b.push(hln);
    b.push(pln);
    b.extend(op.to_be_bytes());
    let (ah, ap) = if lie { (6, 4) } else { (hln as usize, pln as usize) };
    let alen = 2 * ah + 2 * ap;
    b.extend(body(t, alen));
    match t.weighted(&[8, 2, 2, 2, 1, 1]) {
        0 => {}
        1 => {
            let k = 1 + t.below(20);
            b.extend(t.bytes(k));
        }
        2 => {
            b.pop();
        }
        3 => {
            let k = t.below(alen + 1);
            b.truncate(8 + alen - k);
        }
        4 => b.truncate(7),
        _ => b.truncate(8),
    }
    b
}

fn gen_case(t: &mut Tape) -> (&'static str, Vec<u8>, &'static str) {
    match t.weighted(&[30, 18, 16, 12, 14, 6, 4]) {
        0 => ("icmp6", gen_ndp(t), "ndp"),
        1 => ("igmp", gen_igmp(t), "igmp"),
        2 => ("arp", gen_arp(t), "arp"),
        3 => ("icmp4", gen_icmp4(t), "icmp4"),
        4 => ("icmp6", gen_icmp6(t), "icmp6"),
        5 => ("optarea", gen_optarea(t), "optarea"),
        _ => {
            let role = t.pick(&NOISE_ROLES);
            let n = match t.weighted(&[3, 1]) {
                0 => t.below(64),
                _ => t.below(301),
            };
            (role, body(t, n), "noise")
        }
    }
}

// ------------------------------------------------------------------------------------------------
// enumerated sub-domains

fn pat(len: usize, t: u8, c: u8, variant: u8) -> Vec<u8> {
    let base = 0x5au8 ^ variant.wrapping_mul(0x33);
    let mut b: Vec<u8> = (0..len)
        .map(|i| base.wrapping_add((i as u8).wrapping_mul(37)).wrapping_add(t.wrapping_mul(3)).wrapping_add(c.wrapping_mul(11)))
        .collect();
    if len > 0 {
        b[0] = t;
    }
    if len > 1 {
        b[1] = c;
    }
    b
}

/// put two valid options (source link-layer address, MTU) where the option area of an NDP message starts
fn plant_options(b: &mut [u8], v6: bool) {
    if !v6 || b.len() < 2 {
        return;
    }
    let start = match (b[0], b[1]) {
        (133, 0) => 8,
        (134, 0) => 16,
        (135, 0) | (136, 0) => 24,
        (137, 0) => 40,
        _ => return,
    };
    if b.len() >= start + 8 {
        b[start] = 1;
        b[start + 1] = 1;
    }
    if b.len() >= start + 16 {
        b[start + 8] = 5;
        b[start + 9] = 1;
    }
    if b.len() >= start + 24 {
        b[start + 16] = 14;
        b[start + 17] = ((b.len() - start - 16) / 8) as u8;
    }
}

fn exh_lengths(tier: Tier) -> &'static [usize] {
    match tier {
        Tier::Quick => &[8, 20, 21, 40],
        Tier::Thorough => &[8, 9, 19, 20, 21, 24, 39, 40, 48, 72],
    }
}

struct Shard<'a> {
    ctx: &'a mut Ctx,
    i: u64,
    shard: u64,
    n: u64,
}

impl<'a> Shard<'a> {
    /// run one enumerated item if it belongs to this shard
    fn item(&mut self, group: u64, role: &'static str, bytes: &[u8]) -> Result<(), Failure> {
        let mine = self.i % self.n == self.shard;
        self.i += 1;
        if mine {
            self.ctx.mark_exh(group, self.i - 1);
            check(role, bytes, self.ctx, false)?;
        }
        Ok(())
    }
}

fn exhaustive_all(tier: Tier, shard: u64, nshards: u64, ctx: &mut Ctx) -> Result<(), Failure> {
    let mut sh = Shard { ctx, i: 0, shard, n: nshards.max(1) };
    let variants: u8 = tier.pick(1, 2);

    // G1: every (type, code) pair of ICMPv4 and ICMPv6 with a few fixed bodies
    for (role, v6) in [("icmp4", false), ("icmp6", true)] {
        for t in 0..=255u8 {
            for c in 0..=255u8 {
                for &len in exh_lengths(tier) {
                    for variant in 0..variants {
                        let mut b = pat(len, t, c, variant);
                        plant_options(&mut b, v6);
                        sh.item(1, role, &b)?;
                    }
                }
            }
        }
    }
    sh.ctx.class("exh:G1 type/code pairs x bodies");

    // G2: for every typed (type, code) pair, every value of each of the bytes 4..8 (flags, masks,
    // pointers, MTUs) and a few values of each byte of the fixed part / first options
    for (role, v6) in [("icmp4", false), ("icmp6", true)] {
        for t in 0..=255u8 {
            let max = if v6 { r::icmp6_max_code(t) } else { r::icmp4_max_code(t) };
            let Some(max) = max else { continue };
            for c in 0..=max {
                let len = if !v6 && (t == 13 || t == 14) { 20 } else { 56 };
                let mut base = pat(len, t, c, 1);
                plant_options(&mut base, v6);
                for k in 4..8 {
                    for v in 0..=255u8 {
                        let mut b = base.clone();
                        b[k] = v;
                        sh.item(2, role, &b)?;
                    }
                }
                for k in 8..len {
                    for v in [0u8, 1, 0x7f, 0x80, 0xff] {
                        let mut b = base.clone();
                        b[k] = v;
                        sh.item(2, role, &b)?;
                    }
                }
            }
        }
    }
    sh.ctx.class("exh:G2 field sweeps of typed pairs");

    // G3: the code helper functions over all code values
    for c in 0..=255u8 {
        for v in [0u16, 1, 0x1234, 0xff00, 0xffff] {
            sh.item(3, "codes", &[c, (v >> 8) as u8, v as u8])?;
        }
    }

    // G4: IGMP: every type byte x lengths 0..=16 (and longer for the two variable-size types)
    for t in 0..=255u8 {
        let maxlen = if t == 0x11 || t == 0x22 { 40 } else { 16 };
        for len in 0..=maxlen {
            for b1 in [0u8, 0x64, 0x9a] {
                let mut b = pat(len, t, b1, 0);
                if len > 8 {
                    // keep announced counts small so that records / sources are walked
                    b[6] = 0;
                    b[7] = 2;
                }
                if len > 11 {
                    b[10] = 0;
                    b[11] = 1;
                }
                sh.item(4, "igmp", &b)?;
            }
        }
    }
    // G5: IGMPv3 shapes: queries with source lists, reports with group records, every truncation
    for n in 0..=3usize {
        for announced in [n as u16, n as u16 + 1, 0, 0xffff] {
            let mut b = pat(12 + 4 * n, 0x11, 0x85, 2);
            b[10..12].copy_from_slice(&announced.to_be_bytes());
            for keep in 0..=b.len() {
                sh.item(5, "igmp", &b[..keep])?;
            }
            b.extend([0xaa, 0xbb]);
            sh.item(5, "igmp", &b)?;
        }
    }
    const REC: [(u8, u16); 6] = [(0, 0), (0, 1), (0, 2), (1, 0), (1, 1), (2, 3)];
    let mut seqs: Vec<Vec<(u8, u16)>> = vec![vec![]];
    for a in REC {
        seqs.push(vec![a]);
        for b in REC {
            seqs.push(vec![a, b]);
        }
    }
    seqs.push(vec![REC[1], REC[4], REC[5]]);
    seqs.push(vec![REC[0], REC[0], REC[0], REC[3]]);
    for seq in &seqs {
        for extra in [0u16, 1] {
            let mut b = pat(8, 0x22, 0, 3);
            b[6..8].copy_from_slice(&(seq.len() as u16 + extra).to_be_bytes());
            for (k, (aux, nsrc)) in seq.iter().enumerate() {
                let n = 8 + 4 * *nsrc as usize + 4 * *aux as usize;
                let mut rec = pat(n, 1 + k as u8, *aux, 4);
                rec[2..4].copy_from_slice(&nsrc.to_be_bytes());
                b.extend(rec);
            }
            for keep in 8..=b.len() {
                sh.item(5, "igmp", &b[..keep])?;
            }
        }
    }
    sh.ctx.class("exh:G4-5 igmp types x lengths, v3 shapes");

    // G6: ARP grid around Ethernet / IPv4
    for hrd in [1u16, 0, 2, 6, 0x0100, 0x0101, 0xffff] {
        for pro in [0x0800u16, 0x0806, 0x86dd, 0x0008, 0, 0xffff] {
            for hln in [6u8, 0, 1, 5, 7, 8, 255] {
                for pln in [4u8, 0, 3, 5, 16, 255] {
                    let need = 8 + 2 * hln as usize + 2 * pln as usize;
                    let mut b = pat(need + 3, hrd as u8, pro as u8, 5);
                    b[0..2].copy_from_slice(&hrd.to_be_bytes());
                    b[2..4].copy_from_slice(&pro.to_be_bytes());
                    b[4] = hln;
                    b[5] = pln;
                    b[6] = 0;
                    b[7] = 1 + (hln & 1);
                    for len in [need, need - 1, need + 1, need + 3, 7, 8] {
                        sh.item(6, "arp", &b[..len.min(b.len())])?;
                    }
                }
            }
        }
    }
    sh.ctx.class("exh:G6 arp grid");

    // G7: one NDP option of every type x length byte x available size, alone and after / before a valid one
    for ty in 0..=255u8 {
        for units in [0u8, 1, 2, 3, 4, 5, 6, 32, 255] {
            let n = (units as usize * 8).clamp(8, 56);
            let mut o = pat(n, ty, units, 6);
            o[0] = ty;
            o[1] = units;
            let mtu = [5u8, 1, 0, 0, 0, 0, 5, 0xdc];
            for avail in [n, n - 1, 2, 1] {
                sh.item(7, "optarea", &o[..avail])?;
            }
            // slices of the two fixed option sizes whatever the length byte says (single-option constructors)
            for fixed in [8usize, 32] {
                let mut f = pat(fixed, ty, units, 9);
                f[0] = ty;
                f[1] = units;
                sh.item(7, "optarea", &f)?;
            }
            let mut a = o.clone();
            a.extend(mtu);
            sh.item(7, "optarea", &a)?;
            let mut a = mtu.to_vec();
            a.extend(&o);
            sh.item(7, "optarea", &a)?;
            // inside a neighbor solicitation
            let mut ns = pat(24, 135, 0, 7);
            ns.extend(&a);
            sh.item(7, "icmp6", &ns)?;
        }
    }
    sh.ctx.class("exh:G7 ndp option grid");

    // G8: typed NDP payload constructors over every length around the fixed parts
    let p = pat(48, 0x20, 0x01, 8);
    for len in 0..=48 {
        sh.item(8, "ndppayload", &p[..len])?;
    }
    Ok(())
}

// ------------------------------------------------------------------------------------------------

impl Property for C17 {
    fn id(&self) -> &'static str {
        "C17"
    }
    fn post(&self, tier: Tier, seed: u64, root: &std::path::Path) -> Result<Value, Failure> {
        // thorough: coverage-guided search over the same tapes (libFuzzer + ASan on the generic
        // `prop_tape` target; budget by measured executions per second)
        if tier == Tier::Thorough {
            crate::fuzzapi::run_prop_fuzz_campaign("C17", root, seed, 1000000, 8, self.tape_len())
        } else {
            Ok(Value::Null)
        }
    }

    fn tape_len(&self) -> usize {
        512
    }

    fn cases(&self, tier: Tier) -> u64 {
        tier.pick(12_000_000, 800_000_000)
    }

    fn run_tape(&self, tape: &[u8], ctx: &mut Ctx) -> Result<(), Failure> {
        let mut t = Tape::new(tape);
        let (role, bytes, g) = gen_case(&mut t);
        ctx.class(&format!("gen:{}", g));
        ctx.class(match bytes.len() {
            0..=7 => "len:0-7",
            8..=31 => "len:8-31",
            32..=99 => "len:32-99",
            _ => "len:100+",
        });
        check(role, &bytes, ctx, true)?;
        if role == "icmp6" && bytes.len() >= 8 {
            check("ndppayload", &bytes[8..], ctx, false)?;
        }
        // the same bytes in the role of noise for the other decoders
        if t.chance(1, 4) {
            ctx.class("gen:cross-feed");
            for other in NOISE_ROLES {
                if other != role {
                    check(other, &bytes, ctx, false)?;
                }
            }
        }
        Ok(())
    }

    fn exhaustive(&self, tier: Tier, shard: u64, nshards: u64, ctx: &mut Ctx) -> Result<(), Failure> {
        // development aid (sensitivity of the tape generator alone); never set by ./check
        if std::env::var_os("EPVERIF_C17_SKIP_EXH").is_some() {
            ctx.class("exh:SKIPPED (EPVERIF_C17_SKIP_EXH)");
            return Ok(());
        }
        exhaustive_all(tier, shard, nshards, ctx)
    }

    fn replay(&self, input: &Value, ctx: &mut Ctx) -> Result<(), Failure> {
        let role = input.get("proto").and_then(|x| x.as_str()).and_then(role_static).unwrap_or("icmp6");
        let bytes = input_bytes(input, "hex");
        check(role, &bytes, ctx, true)
    }

    fn describe(&self, tape: &[u8]) -> Value {
        let mut t = Tape::new(tape);
        let (role, bytes, g) = gen_case(&mut t);
        json!({"proto": role, "hex": hex(&bytes), "generator": g})
    }

    fn rule(&self) -> String {
        "A case is (role, bytes): bytes of 0..300 (ARP up to 1028) are decoded in one role - icmp4 (Icmpv4Slice/Icmpv4Header), icmp6 \
         (Icmpv6Slice/Icmpv6Header, the three payload_slice entry points, to_payload/payload_from_slice, NdpOptionsIterator over the \
         option area), igmp (IgmpHeader::from_slice, ReportGroupRecordV3Header::from_slice at every record offset of the reference walk), \
         arp (ArpPacketSlice, ArpPacket, try_eth_ipv4/TryFrom), optarea (NdpOptionsIterator::from_slice + the six single-option \
         constructors + PrefixInformation), ndppayload (the five typed NDP payload constructors), codes (the seven code helper functions) - \
         and compared with reference tables/walkers written from the RFCs: accept/reject verdict and error lengths, message kind, every \
         field by own byte extraction, header/payload/option ranges as pointer offsets into the input, option tiling and exhaustion after \
         the first error, typed->bytes->typed round trips modulo the documented dropped (unused/reserved) bits. Tape generator: NDP \
         messages with 0-5 options of all five known kinds and unknown kinds, length byte exact/0/1/-1/+1/255/random with the body following \
         either the length byte or the proper size, cut / stray / zero-length tails; IGMP of all assigned types and neighbours, queries of \
         8, 9-11, >=12 bytes with source lists, v3 reports with 0-4 records incl. aux data and wrong counts; ARP eth/ipv4, 1-3 field near \
         misses, generic sizes, cut and trailing bytes; ICMPv4/v6 from the IANA tables plus neighbours with codes around the assigned range \
         and timestamp lengths 19/20/21; raw option areas; noise. One in four byte strings is also fed to all other roles. Enumerated \
         part: see exhaustive_domain. evaluations = decoder-role runs (one reference/crate comparison of a byte string in one role; option \
         walks, records and single-option constructor batches count separately). Non-trivial = a typed (non Unknown/Raw) message with a \
         non-empty variable part, or >= 2 accepted options, or a rejection after >= 1 accepted option; ARP with non-empty addresses. \
         Distinct = (role, type byte, code class [0 / assigned / first unassigned / other], first four option kinds, stop reason) resp. \
         (igmp, type, rest-length class, record/source shape) resp. (arp, which of hrd/pro/hln/pln differ, size classes, trailing)."
            .into()
    }

    fn assumptions(&self) -> Vec<String> {
        vec![
            "Trusted base: the reference tables in harness/src/props/c17_ref.rs (written from RFC 792/1122/1191/1812, 4443/7112/8754/8883, 4861, 1112/2236/3376/9776, 826 and the IANA registries).".into(),
            "Crate policy followed where it is narrower than the registries (documented in the crate): ICMPv6 destination unreachable is typed for codes 0-6 only (7, 8 fall back to Unknown); packet too big, echo and the five NDP messages are typed only with code 0 (RFC 4443 says the code of packet-too-big/echo is ignored by receivers); ICMPv4 timestamp/timestamp reply are typed only with code 0 and must be exactly 20 bytes; ICMPv4 types without a variant (source quench, router advertisement/solicitation, information, address mask, ...) are Unknown.".into(),
            "IGMP: type 0x11 with 8 bytes = v1/v2 query, >= 12 bytes = v3 query (12-byte header), 9-11 bytes rejected with required_len 12 (RFC 9776 7.1 as documented on IgmpHeader::from_slice); all other types take an 8-byte header regardless of the rest.".into(),
            "Documented normalisation of typed->bytes: 'unused'/'reserved' bits are dropped and written as zero (ICMPv4 bytes 4-7 of destination unreachable [except next-hop MTU], time exceeded, parameter problem [except pointer]; ICMPv6 bytes 4-7 of destination unreachable, time exceeded, RS, NS, redirect, the 6 reserved RA bits, the 29 reserved NA bits; IGMP byte 1 of v1/v2/v3 reports and leave group; reserved1/reserved2 of the prefix information option).".into(),
            "NDP options: an option is rejected iff fewer than 2 bytes are left, Length is 0, Length*8 exceeds the rest, or the kind has a fixed size (prefix information 4 units, MTU 1 unit) and another Length. Error variant/values are asserted for zero length, truncation and fixed-size mismatch (either of the two when both apply); for a single stray byte only 'is an error'.".into(),
            "Not asserted: LenError::len_source (C07; ARP is the known finding F7), which of several mismatching fields try_eth_ipv4 reports, whether UnknownNdpOptionSlice::from_slice accepts the five typed kinds, rest() of the option iterator after an error, checksums (C09), as_lax_ip_slice (C05).".into(),
            "Pointer identity of empty sub-slices is not checked (only their length).".into(),
        ]
    }

    fn exhaustive_claim(&self, tier: Tier) -> Option<String> {
        Some(format!(
            "all 256x256 (type, code) pairs of ICMPv4 and of ICMPv6 with bodies of lengths {:?} ({} byte pattern(s)); for each of the 57 typed \
             (type, code) pairs all 256 values of each of bytes 4..8 and 5 values of every later byte; all 256 code values through the 7 code \
             helper functions; all 256 IGMP type bytes x lengths 0..=16 (0..=40 for 0x11/0x22) x 3 values of byte 1; IGMPv3 queries with 0-3 \
             sources x 4 announced counts and reports over 45 record sequences x 2 announced counts at every truncation length; ARP grid 7 \
             hrd x 6 pro x 7 hln x 6 pln x 6 lengths; one NDP option of every type byte x 9 length bytes x 4 available sizes and as 8- and 32-byte slices, before/after a \
             valid option and inside a neighbor solicitation; the five NDP payload constructors at every length 0..=48",
            exh_lengths(tier),
            tier.pick(1, 2)
        ))
    }
}
