//! C09 — checksums equal the RFC 1071 Internet checksum.
//!
//! Oracle: an own RFC 1071 implementation (`ref_sum`/`ref_fold`/`ref_cks`: big-endian 16 bit words
//! summed into a wide integer, odd trailing byte padded with a zero byte on the right, end-around
//! carry fold, complement) plus own pseudo-header composition (RFC 768, 9293, 792, 4443, 8200 §8.1,
//! 2236/3376). Headers are serialised by the crate (`to_bytes`), the checksum field is zeroed here.
//!
//! Every case is a concrete `Spec` (numbers + byte strings). The generator (c09_gen.rs) maps a tape
//! to a `Spec`, `run_spec` evaluates it, `replay` parses the `Spec` back from JSON: one code path.

use crate::engine::*;
use crate::tape::{hex, unhex};
use etherparse::checksum::{u32_16bit_word as w32, u64_16bit_word as w64, Sum16BitWords};
use etherparse::*;
use serde_json::{json, Map, Value};
use std::collections::BTreeMap;

pub struct C09;

// ------------------------------------------------------------------------------------------------
// reference (RFC 1071)

/// Sum of the big-endian 16 bit words of `d`; an odd trailing byte is the high byte of a last word
/// whose low byte is zero (RFC 1071 §4.1).
pub fn ref_sum(d: &[u8]) -> u64 {
    let mut s = 0u64;
    let mut it = d.chunks_exact(2);
    for c in &mut it {
        s += ((c[0] as u64) << 8) | c[1] as u64;
    }
    if let [b] = it.remainder() {
        s += (*b as u64) << 8;
    }
    s
}

/// End-around-carry fold to 16 bits (0 only for a zero sum).
pub fn ref_fold(mut s: u64) -> u16 {
    while s >> 16 != 0 {
        s = (s & 0xffff) + (s >> 16);
    }
    s as u16
}

pub fn ref_cks(d: &[u8]) -> u16 {
    !ref_fold(ref_sum(d))
}

/// value of a checksum returned in "native order" by the helper functions when it is written to
/// memory and read back as a big-endian (wire) number
fn wire(x: u16) -> u16 {
    u16::from_be_bytes(x.to_ne_bytes())
}

pub fn pseudo4(src: [u8; 4], dst: [u8; 4], proto: u8, len: u16) -> Vec<u8> {
    let mut v = Vec::with_capacity(12);
    v.extend_from_slice(&src);
    v.extend_from_slice(&dst);
    v.push(0);
    v.push(proto);
    v.extend_from_slice(&len.to_be_bytes());
    v
}

pub fn pseudo6(src: [u8; 16], dst: [u8; 16], len: u32, next: u8) -> Vec<u8> {
    let mut v = Vec::with_capacity(40);
    v.extend_from_slice(&src);
    v.extend_from_slice(&dst);
    v.extend_from_slice(&len.to_be_bytes());
    v.extend_from_slice(&[0, 0, 0, next]);
    v
}

// ------------------------------------------------------------------------------------------------
// concrete case description

#[derive(Clone, Default, Debug)]
pub struct Spec {
    pub kind: String,
    pub n: BTreeMap<String, u64>,
    pub b: BTreeMap<String, Vec<u8>>,
}

impl Spec {
    pub fn new(kind: &str) -> Spec {
        Spec { kind: kind.to_string(), n: BTreeMap::new(), b: BTreeMap::new() }
    }
    pub fn set(&mut self, k: &str, v: u64) {
        self.n.insert(k.to_string(), v);
    }
    pub fn setb(&mut self, k: &str, v: Vec<u8>) {
        self.b.insert(k.to_string(), v);
    }
    pub fn n(&self, k: &str) -> u64 {
        self.n.get(k).copied().unwrap_or(0)
    }
    pub fn b(&self, k: &str) -> &[u8] {
        self.b.get(k).map(|v| v.as_slice()).unwrap_or(&[])
    }
    pub fn arr<const N: usize>(&self, k: &str) -> [u8; N] {
        let mut a = [0u8; N];
        let s = self.b(k);
        let m = s.len().min(N);
        a[..m].copy_from_slice(&s[..m]);
        a
    }
    pub fn to_json(&self) -> Value {
        let mut n = Map::new();
        for (k, v) in &self.n {
            n.insert(k.clone(), json!(v));
        }
        let mut b = Map::new();
        for (k, v) in &self.b {
            b.insert(k.clone(), Value::String(hex(v)));
        }
        json!({"kind": self.kind, "n": n, "b": b})
    }
    /// like `to_json` but long byte strings are abbreviated (evidence samples)
    pub fn brief_json(&self) -> Value {
        let mut n = Map::new();
        for (k, v) in &self.n {
            n.insert(k.clone(), json!(v));
        }
        let mut b = Map::new();
        for (k, v) in &self.b {
            if v.len() <= 48 {
                b.insert(k.clone(), Value::String(hex(v)));
            } else {
                b.insert(k.clone(), Value::String(format!("{}… ({} bytes)", hex(&v[..16]), v.len())));
            }
        }
        json!({"kind": self.kind, "n": n, "b": b})
    }
    pub fn from_json(v: &Value) -> Option<Spec> {
        let mut s = Spec::new(v.get("kind")?.as_str()?);
        if let Some(o) = v.get("n").and_then(|x| x.as_object()) {
            for (k, x) in o {
                s.n.insert(k.clone(), x.as_u64()?);
            }
        }
        if let Some(o) = v.get("b").and_then(|x| x.as_object()) {
            for (k, x) in o {
                s.b.insert(k.clone(), unhex(x.as_str()?)?);
            }
        }
        Some(s)
    }
}

pub fn pack_u32s(xs: &[usize]) -> Vec<u8> {
    xs.iter().flat_map(|x| (*x as u32).to_be_bytes()).collect()
}
fn unpack_u32s(b: &[u8]) -> Vec<usize> {
    b.chunks_exact(4).map(|c| u32::from_be_bytes([c[0], c[1], c[2], c[3]]) as usize).collect()
}

// ------------------------------------------------------------------------------------------------
// check plumbing

struct Ck<'a> {
    ctx: &'a mut Ctx,
    spec: &'a Spec,
}

fn carry_bucket(c: u64) -> &'static str {
    match c {
        0 => "0",
        1 => "1",
        2..=3 => "2-3",
        4..=15 => "4-15",
        16..=255 => "16-255",
        _ => "256+",
    }
}

impl Ck<'_> {
    fn fail(&mut self, entry: &str, layer: &str, clause: &str, shape: &str, detail: String) -> Result<(), Failure> {
        self.ctx.fail(Failure::new(
            format!("C09|{}|{}|{}|{}", entry, layer, clause, shape),
            clause,
            detail,
            self.spec.to_json(),
        ))
    }
    fn eq16(&mut self, entry: &str, layer: &str, clause: &str, shape: &str, got: u16, exp: u16) -> Result<(), Failure> {
        self.ctx.eval(1);
        if got != exp {
            self.fail(entry, layer, clause, shape, format!("{}: expected 0x{:04x}, crate returned 0x{:04x}", entry, exp, got))
        } else {
            Ok(())
        }
    }
    fn res16<E: core::fmt::Debug>(&mut self, entry: &str, layer: &str, clause: &str, shape: &str, got: Result<u16, E>, exp: u16) -> Result<(), Failure> {
        match got {
            Ok(g) => self.eq16(entry, layer, clause, shape, g, exp),
            Err(e) => {
                self.ctx.eval(1);
                self.fail(entry, layer, "unexpected-error", shape, format!("{}: expected checksum 0x{:04x}, crate returned Err({:?})", entry, exp, e))
            }
        }
    }
    fn truth(&mut self, entry: &str, layer: &str, clause: &str, shape: &str, got: bool, exp: bool, what: &str) -> Result<(), Failure> {
        self.ctx.eval(1);
        if got != exp {
            self.fail(entry, layer, clause, shape, format!("{}: {}: expected {}, crate says {}", entry, what, exp, got))
        } else {
            Ok(())
        }
    }
    /// non-trivial = odd length, or >= 1 carry out of 16 bits in the reference sum, or a split
    fn note(&mut self, func: &str, len: usize, sum: u64, split: &str) {
        let carries = sum >> 16;
        if len % 2 == 1 || carries > 0 || split != "w" {
            let sig = format!("{}|l{}|c{}|{}", func, len % 8, carry_bucket(carries), split);
            let spec = self.spec;
            self.ctx.nontrivial(&sig, || spec.brief_json());
        }
    }
}

fn len_class(ctx: &mut Ctx, pre: &str, len: usize) {
    let c = match len {
        0 => "0",
        1..=16 => "1-16",
        17..=129 => "17-129",
        130..=1500 => "130-1500",
        1501..=9000 => "1501-9000",
        _ => ">9000",
    };
    ctx.class(&format!("{}:len:{}", pre, c));
    if len % 2 == 1 {
        ctx.class(&format!("{}:len:odd", pre));
    }
}

// ------------------------------------------------------------------------------------------------
// kind "helper": checksum.rs helper functions on one byte string

fn sanitize_splits(raw: &[usize], len: usize) -> Vec<usize> {
    let mut v: Vec<usize> = raw.iter().map(|x| (x & !1usize).min(len & !1usize)).collect();
    v.sort();
    v
}

fn chunks_of<'a>(d: &'a [u8], splits: &[usize]) -> Vec<&'a [u8]> {
    let mut out = vec![];
    let mut a = 0;
    for s in splits {
        out.push(&d[a..*s]);
        a = *s;
    }
    out.push(&d[a..]);
    out
}

/// Successive additions. The 4/8/16 byte adders take `&mut self` *and* return the new sum: whatever an
/// implementation does with the object it was called on, that object has to keep describing a byte
/// string the caller knows - the bytes before the call or the bytes after it - or an accumulator kept
/// around (a cached pseudo-header sum) yields checksums of data nobody added. Second value: the first
/// adder that left its object in a third state.
fn s16_chunks(chunks: &[&[u8]], fixed: bool) -> (Sum16BitWords, Option<String>) {
    let mut s = Sum16BitWords::new();
    let mut bad = None;
    for c in chunks {
        let before = s.clone();
        let (name, r) = match (fixed, c.len()) {
            (true, 2) => ("", s.clone().add_2bytes([c[0], c[1]])),
            (true, 4) => ("add_4bytes", s.add_4bytes([c[0], c[1], c[2], c[3]])),
            (true, 8) => ("add_8bytes", s.add_8bytes((*c).try_into().unwrap())),
            (true, 16) => ("add_16bytes", s.add_16bytes((*c).try_into().unwrap())),
            _ => ("", s.clone().add_slice(c)),
        };
        if !name.is_empty() && bad.is_none() && s != before && s != r {
            bad = Some(format!("Sum16BitWords::{}: the accumulator it was called on holds {:?} afterwards - neither its value before ({:?}) nor the returned sum ({:?})", name, s, before, r));
        }
        s = r;
    }
    (s, bad)
}

fn w32_chunks(start: u32, chunks: &[&[u8]], fixed: bool) -> u32 {
    let mut s = start;
    for c in chunks {
        s = match (fixed, c.len()) {
            (true, 2) => w32::add_2bytes(s, [c[0], c[1]]),
            (true, 4) => w32::add_4bytes(s, [c[0], c[1], c[2], c[3]]),
            _ => w32::add_slice(s, c),
        };
    }
    s
}

fn w64_chunks(start: u64, chunks: &[&[u8]], fixed: bool) -> u64 {
    let mut s = start;
    for c in chunks {
        s = match (fixed, c.len()) {
            (true, 2) => w64::add_2bytes(s, [c[0], c[1]]),
            (true, 4) => w64::add_4bytes(s, [c[0], c[1], c[2], c[3]]),
            (true, 8) => w64::add_8bytes(s, (*c).try_into().unwrap()),
            _ => w64::add_slice(s, c),
        };
    }
    s
}

fn nz(x: u16) -> u16 {
    if x == 0 {
        0xffff
    } else {
        x
    }
}

fn run_helper(spec: &Spec, ctx: &mut Ctx) -> Result<(), Failure> {
    let data = spec.b("data");
    let off = (spec.n("off") % 8) as usize;
    let fixed = spec.n("fixed") != 0;
    let s32 = spec.n("s32") as u32;
    let s64 = spec.n("s64");
    let splits = sanitize_splits(&unpack_u32s(spec.b("splits")), data.len());

    // place the data at the requested alignment, surrounded by non-zero junk (an over-read or a
    // wrongly chosen pad byte changes the result)
    let mut buf = vec![0xA5u8; off];
    buf.extend_from_slice(data);
    buf.extend_from_slice(&[0x5A; 9]);
    let d = &buf[off..off + data.len()];
    let chunks = chunks_of(d, &splits);

    let sum = ref_sum(data);
    let exp = !ref_fold(sum);
    let odd = data.len() % 2 == 1;
    let shape = if odd { "odd" } else { "even" };
    let split = if splits.is_empty() {
        if fixed && matches!(data.len(), 2 | 4 | 8 | 16) {
            "f0".to_string()
        } else {
            "w".to_string()
        }
    } else {
        format!("s{}{}{}", splits.len().min(4), if fixed { "f" } else { "" }, if chunks.iter().any(|c| c.is_empty()) { "e" } else { "" })
    };

    ctx.class("k:helper");
    len_class(ctx, "helper", data.len());
    if !splits.is_empty() {
        ctx.class("helper:split");
    }
    if fixed {
        ctx.class("helper:fixed-width-ops");
    }
    if s32 >= 0xffff_0000 {
        ctx.class("helper:s32-within-2^16-of-max");
    }
    if s64 >= 0xffff_ffff_ffff_0000 {
        ctx.class("helper:s64-within-2^16-of-max");
    }
    if sum >> 16 >= 1 {
        ctx.class("helper:carry>=1");
    }
    if exp == 0 {
        ctx.class("helper:checksum==0");
    }
    let mut ck = Ck { ctx, spec };

    // A: Sum16BitWords, whole slice
    let s = Sum16BitWords::new().add_slice(d);
    ck.eq16("Sum16BitWords::add_slice+ones_complement", "whole", "rfc1071", shape, wire(s.ones_complement()), exp)?;
    ck.eq16("Sum16BitWords::add_slice+to_ones_complement_with_no_zero", "whole", "rfc1071-nozero", shape, wire(s.to_ones_complement_with_no_zero()), nz(exp))?;
    ck.note("S16.whole", data.len(), sum, "w");

    // B: Sum16BitWords, successive additions
    if split != "w" {
        let (s, bad) = s16_chunks(&chunks, fixed);
        if let Some(m) = bad {
            ck.ctx.eval(1);
            ck.fail("Sum16BitWords::add_*", "chunks", "accumulator-describes-known-bytes", shape, m)?;
        }
        ck.eq16("Sum16BitWords::add_*+ones_complement", "chunks", "split-independence", shape, wire(s.ones_complement()), exp)?;
        ck.eq16("Sum16BitWords::add_*+to_ones_complement_with_no_zero", "chunks", "split-independence-nozero", shape, wire(s.to_ones_complement_with_no_zero()), nz(exp))?;
        ck.note("S16.chunks", data.len(), sum, &split);
    }

    // C: u32 accumulator with arbitrary start (the start is equivalent to having summed its bytes)
    let sum32 = ref_sum(&s32.to_ne_bytes()) + sum;
    let exp32 = !ref_fold(sum32);
    let acc = w32_chunks(s32, &chunks, fixed);
    let st = if s32 == 0 { "start0" } else { "startN" };
    ck.eq16("u32_16bit_word::add_*+ones_complement", st, "rfc1071", shape, wire(w32::ones_complement(acc)), exp32)?;
    ck.eq16("u32_16bit_word::add_*+ones_complement_with_no_zero", st, "rfc1071-nozero", shape, wire(w32::ones_complement_with_no_zero(acc)), nz(exp32))?;
    ck.note("w32", data.len(), sum32, &split);

    // D: u64 accumulator with arbitrary start
    let sum64 = ref_sum(&s64.to_ne_bytes()) + sum;
    let exp64 = !ref_fold(sum64);
    let acc = w64_chunks(s64, &chunks, fixed);
    let st = if s64 == 0 { "start0" } else { "startN" };
    ck.eq16("u64_16bit_word::add_*+ones_complement", st, "rfc1071", shape, wire(w64::ones_complement(acc)), exp64)?;
    ck.eq16("u64_16bit_word::add_*+ones_complement_with_no_zero", st, "rfc1071-nozero", shape, wire(w64::ones_complement_with_no_zero(acc)), nz(exp64))?;
    ck.note("w64", data.len(), sum64, &split);

    // E: 32 bit and 64 bit accumulators agree (same start value, whole slice)
    let a32 = w32::ones_complement(w32::add_slice(s32, d));
    let a64 = w64::ones_complement(w64::add_slice(s32 as u64, d));
    ck.eq16("u32_16bit_word::add_slice vs u64_16bit_word::add_slice", "whole", "32/64-agreement", shape, a32, a64)?;
    ck.note("w32=w64", data.len(), sum32, "w");
    Ok(())
}

// ------------------------------------------------------------------------------------------------
// kind "acc": accumulator states, fixed width additions, folding

fn run_acc(spec: &Spec, ctx: &mut Ctx) -> Result<(), Failure> {
    let s32 = spec.n("s32") as u32;
    let s64 = spec.n("s64");
    let v: [u8; 8] = spec.arr("v");
    ctx.class("k:acc");
    if s32 >= 0xffff_0000 {
        ctx.class("acc:s32-within-2^16-of-max");
    }
    if s64 >= 0xffff_ffff_ffff_0000 {
        ctx.class("acc:s64-within-2^16-of-max");
    }
    if s32.checked_add(u32::from_ne_bytes([v[0], v[1], v[2], v[3]])).is_none() {
        ctx.class("acc:u32-carry-out");
    }
    if s64.checked_add(u64::from_ne_bytes(v)).is_none() {
        ctx.class("acc:u64-carry-out");
    }
    let mut ck = Ck { ctx, spec };
    let b32 = ref_sum(&s32.to_ne_bytes());
    let b64 = ref_sum(&s64.to_ne_bytes());

    ck.eq16("u32_16bit_word::ones_complement", "fold", "rfc1071", "acc", wire(w32::ones_complement(s32)), !ref_fold(b32))?;
    ck.eq16("u32_16bit_word::ones_complement_with_no_zero", "fold", "rfc1071-nozero", "acc", wire(w32::ones_complement_with_no_zero(s32)), nz(!ref_fold(b32)))?;
    ck.eq16("u64_16bit_word::ones_complement", "fold", "rfc1071", "acc", wire(w64::ones_complement(s64)), !ref_fold(b64))?;
    ck.eq16("u64_16bit_word::ones_complement_with_no_zero", "fold", "rfc1071-nozero", "acc", wire(w64::ones_complement_with_no_zero(s64)), nz(!ref_fold(b64)))?;
    ck.note("acc.fold32", 4, b32, "w");
    ck.note("acc.fold64", 8, b64, "w");

    let e = b32 + ref_sum(&v[..2]);
    ck.eq16("u32_16bit_word::add_2bytes", "add", "end-around-carry", "acc", wire(w32::ones_complement(w32::add_2bytes(s32, [v[0], v[1]]))), !ref_fold(e))?;
    ck.note("acc.add2.32", 6, e, "f0");
    let e = b32 + ref_sum(&v[..4]);
    ck.eq16("u32_16bit_word::add_4bytes", "add", "end-around-carry", "acc", wire(w32::ones_complement(w32::add_4bytes(s32, [v[0], v[1], v[2], v[3]]))), !ref_fold(e))?;
    ck.note("acc.add4.32", 8, e, "f0");
    let e = b64 + ref_sum(&v[..2]);
    ck.eq16("u64_16bit_word::add_2bytes", "add", "end-around-carry", "acc", wire(w64::ones_complement(w64::add_2bytes(s64, [v[0], v[1]]))), !ref_fold(e))?;
    ck.note("acc.add2.64", 10, e, "f0");
    let e = b64 + ref_sum(&v[..4]);
    ck.eq16("u64_16bit_word::add_4bytes", "add", "end-around-carry", "acc", wire(w64::ones_complement(w64::add_4bytes(s64, [v[0], v[1], v[2], v[3]]))), !ref_fold(e))?;
    ck.note("acc.add4.64", 12, e, "f0");
    let e = b64 + ref_sum(&v);
    ck.eq16("u64_16bit_word::add_8bytes", "add", "end-around-carry", "acc", wire(w64::ones_complement(w64::add_8bytes(s64, v))), !ref_fold(e))?;
    ck.note("acc.add8.64", 16, e, "f0");
    Ok(())
}

// ------------------------------------------------------------------------------------------------
// value builders shared by the protocol kinds

pub fn build_ip4(spec: &Spec) -> Ipv4Header {
    // ipm = [ttl, proto, id_hi, id_lo, tl_hi, tl_lo, tos, flags]
    let m: [u8; 8] = spec.arr("ipm");
    let opts = spec.b("ipopts");
    let ol = (opts.len().min(40) / 4) * 4;
    let fresh = Ipv4Header {
        dscp: IpDscp::try_new(m[6] >> 2).unwrap(),
        ecn: IpEcn::try_new(m[6] & 3).unwrap(),
        total_len: u16::from_be_bytes([m[4], m[5]]),
        identification: u16::from_be_bytes([m[2], m[3]]),
        dont_fragment: m[7] & 1 != 0,
        more_fragments: m[7] & 2 != 0,
        fragment_offset: IpFragOffset::try_new((spec.n("fo") & 0x1fff) as u16).unwrap(),
        time_to_live: m[0],
        protocol: IpNumber(m[1]),
        header_checksum: spec.n("ipcks") as u16,
        source: spec.arr("src"),
        destination: spec.arr("dst"),
        options: Ipv4Options::try_from(&opts[..ol]).unwrap(),
    };
    // same idea as in build_tcp: the options of a re-used header were longer before
    if spec.n("ipcks") & 3 == 0 {
        let mut h = Ipv4Header { options: Ipv4Options::try_from(&[0xaau8; 40][..]).unwrap(), ..fresh.clone() };
        h.options = Ipv4Options::try_from(&[0x55u8; 8][..]).unwrap();
        h.options = Ipv4Options::try_from(&opts[..ol]).unwrap();
        assert!(h == fresh);
        return h;
    }
    fresh
}

pub fn build_ip6(spec: &Spec) -> Ipv6Header {
    let m: [u8; 8] = spec.arr("ipm");
    Ipv6Header {
        traffic_class: m[6],
        flow_label: Ipv6FlowLabel::try_new(u32::from_be_bytes([0, m[2] & 0x0f, m[3], m[7]])).unwrap(),
        payload_length: u16::from_be_bytes([m[4], m[5]]),
        next_header: IpNumber(m[1]),
        hop_limit: m[0],
        source: spec.arr("src"),
        destination: spec.arr("dst"),
    }
}

pub fn build_tcp(spec: &Spec) -> TcpHeader {
    let f = spec.n("flags");
    let opts = spec.b("opts");
    let fresh = TcpHeader {
        source_port: spec.n("sp") as u16,
        destination_port: spec.n("dp") as u16,
        sequence_number: spec.n("seq") as u32,
        acknowledgment_number: spec.n("ack") as u32,
        ns: f & 0x100 != 0,
        fin: f & 1 != 0,
        syn: f & 2 != 0,
        rst: f & 4 != 0,
        psh: f & 8 != 0,
        ack: f & 16 != 0,
        urg: f & 32 != 0,
        ece: f & 64 != 0,
        cwr: f & 128 != 0,
        window_size: spec.n("win") as u16,
        checksum: spec.n("cks") as u16,
        urgent_pointer: spec.n("urg") as u16,
        options: TcpOptions::try_from_slice(&opts[..opts.len().min(40)]).unwrap(),
    };
    // A quarter of the headers are not built fresh but reach the same value through a history on one
    // object (a sender re-using its header struct): longest possible options first, then an element
    // list, then the real ones. "Every checksum the crate computes from header structs" includes
    // structs in every reachable state; the result must be `==` to the fresh value.
    if spec.n("seq") & 3 == 0 {
        let mut h = TcpHeader { options: Default::default(), ..fresh.clone() };
        let _ = h.set_options_raw(&[0xaa; 40]);
        if spec.n("seq") & 4 == 0 {
            let _ = h.set_options(&[TcpOptionElement::Timestamp(0x5555_5555, 0x5555_5555), TcpOptionElement::MaximumSegmentSize(0x5555)]);
        }
        h.set_options_raw(&opts[..opts.len().min(40)]).unwrap();
        assert!(h == fresh, "a TcpHeader whose options were replaced differs from a fresh one: {:?} vs {:?}", h, fresh);
        return h;
    }
    fresh
}

pub const ICMP4_VARIANTS: u64 = 9;
pub fn build_icmp4(spec: &Spec) -> Icmpv4Type {
    use etherparse::icmpv4::*;
    let w: [u8; 16] = spec.arr("w");
    let code = spec.n("code") as u8;
    let echo = IcmpEchoHeader { id: u16::from_be_bytes([w[0], w[1]]), seq: u16::from_be_bytes([w[2], w[3]]) };
    match spec.n("sel") % ICMP4_VARIANTS {
        0 => Icmpv4Type::Unknown { type_u8: spec.n("ty") as u8, code_u8: code, bytes5to8: [w[0], w[1], w[2], w[3]] },
        1 => Icmpv4Type::EchoReply(echo),
        2 => Icmpv4Type::DestinationUnreachable(DestUnreachableHeader::from_values(code % 16, u16::from_be_bytes([w[0], w[1]])).unwrap()),
        3 => Icmpv4Type::Redirect(RedirectHeader { code: RedirectCode::from_u8(code % 4).unwrap(), gateway_internet_address: [w[0], w[1], w[2], w[3]] }),
        4 => Icmpv4Type::EchoRequest(echo),
        5 => Icmpv4Type::TimeExceeded(TimeExceededCode::from_u8(code % 2).unwrap()),
        6 => Icmpv4Type::ParameterProblem(ParameterProblemHeader::from_values(code % 3, w[0]).unwrap()),
        7 => Icmpv4Type::TimestampRequest(TimestampMessage::from_bytes(w)),
        _ => Icmpv4Type::TimestampReply(TimestampMessage::from_bytes(w)),
    }
}

pub const ICMP6_VARIANTS: u64 = 12;
pub fn build_icmp6(spec: &Spec) -> Icmpv6Type {
    use etherparse::icmpv6::*;
    let w: [u8; 4] = spec.arr("w");
    let code = spec.n("code") as u8;
    let echo = IcmpEchoHeader { id: u16::from_be_bytes([w[0], w[1]]), seq: u16::from_be_bytes([w[2], w[3]]) };
    match spec.n("sel") % ICMP6_VARIANTS {
        0 => Icmpv6Type::Unknown { type_u8: spec.n("ty") as u8, code_u8: code, bytes5to8: w },
        1 => Icmpv6Type::DestinationUnreachable(DestUnreachableCode::from_u8(code % 7).unwrap()),
        2 => Icmpv6Type::PacketTooBig { mtu: u32::from_be_bytes(w) },
        3 => Icmpv6Type::TimeExceeded(TimeExceededCode::from_u8(code % 2).unwrap()),
        4 => Icmpv6Type::ParameterProblem(ParameterProblemHeader { code: ParameterProblemCode::from_u8(code % 11).unwrap(), pointer: u32::from_be_bytes(w) }),
        5 => Icmpv6Type::EchoRequest(echo),
        6 => Icmpv6Type::EchoReply(echo),
        7 => Icmpv6Type::RouterSolicitation,
        8 => Icmpv6Type::RouterAdvertisement(RouterAdvertisementHeader {
            cur_hop_limit: w[0],
            managed_address_config: w[1] & 0x80 != 0,
            other_config: w[1] & 0x40 != 0,
            router_lifetime: u16::from_be_bytes([w[2], w[3]]),
        }),
        9 => Icmpv6Type::NeighborSolicitation,
        10 => Icmpv6Type::NeighborAdvertisement(NeighborAdvertisementHeader { router: w[0] & 0x80 != 0, solicited: w[0] & 0x40 != 0, r#override: w[0] & 0x20 != 0 }),
        _ => Icmpv6Type::Redirect,
    }
}

pub const IGMP_VARIANTS: u64 = 7;
pub fn build_igmp(spec: &Spec) -> IgmpType {
    use etherparse::igmp::*;
    let w: [u8; 12] = spec.arr("w");
    let ga = GroupAddress { octets: [w[1], w[2], w[3], w[4]] };
    match spec.n("sel") % IGMP_VARIANTS {
        0 => IgmpType::MembershipQuery(MembershipQueryType { max_response_time: w[0], group_address: ga }),
        1 => IgmpType::MembershipQueryWithSources(MembershipQueryWithSourcesHeader {
            max_response_code: MaxResponseCode(w[0]),
            group_address: ga,
            raw_byte_8: w[5],
            qqic: w[6],
            num_of_sources: u16::from_be_bytes([w[7], w[8]]),
        }),
        2 => IgmpType::MembershipReportV1(MembershipReportV1Type { group_address: ga }),
        3 => IgmpType::MembershipReportV2(MembershipReportV2Type { group_address: ga }),
        4 => IgmpType::MembershipReportV3(MembershipReportV3Header { flags: [w[0], w[1]], num_of_records: u16::from_be_bytes([w[2], w[3]]) }),
        5 => IgmpType::LeaveGroup(LeaveGroupType { group_address: ga }),
        _ => IgmpType::Unknown(UnknownHeader { igmp_type: spec.n("ty") as u8, raw_byte_1: w[0], raw_bytes_4_7: [w[1], w[2], w[3], w[4]] }),
    }
}

fn is_v6(spec: &Spec) -> bool {
    spec.n("v") == 6
}

/// The byte string whose RFC 1071 checksum is the protocol checksum of the case: pseudo header ‖
/// serialised header with zeroed checksum field ‖ payload. Also used by the generator to steer a
/// payload word so that a chosen checksum value results.
pub fn ref_message(spec: &Spec) -> Vec<u8> {
    let payload = spec.b("payload");
    let mut m: Vec<u8>;
    match spec.kind.as_str() {
        "udp" => {
            let h = UdpHeader {
                source_port: spec.n("sp") as u16,
                destination_port: spec.n("dp") as u16,
                length: (8 + payload.len()) as u16,
                checksum: 0,
            };
            m = if is_v6(spec) {
                // RFC 8200 §8.1: for protocols carrying their own length (UDP) that length is used
                pseudo6(spec.arr("src"), spec.arr("dst"), h.length as u32, 17)
            } else {
                pseudo4(spec.arr("src"), spec.arr("dst"), 17, h.length)
            };
            m.extend_from_slice(&h.to_bytes());
        }
        "tcp" => {
            let mut hb = build_tcp(spec).to_bytes().to_vec();
            hb[16] = 0;
            hb[17] = 0;
            let l = hb.len() + payload.len();
            m = if is_v6(spec) { pseudo6(spec.arr("src"), spec.arr("dst"), l as u32, 6) } else { pseudo4(spec.arr("src"), spec.arr("dst"), 6, l as u16) };
            m.extend_from_slice(&hb);
        }
        "icmp4" => {
            m = Icmpv4Header { icmp_type: build_icmp4(spec), checksum: 0 }.to_bytes().to_vec();
        }
        "icmp6" => {
            let hb = Icmpv6Header { icmp_type: build_icmp6(spec), checksum: 0 }.to_bytes();
            m = pseudo6(spec.arr("src"), spec.arr("dst"), (hb.len() + payload.len()) as u32, 58);
            m.extend_from_slice(&hb);
        }
        "igmp" => {
            m = IgmpHeader { igmp_type: build_igmp(spec), checksum: 0 }.to_bytes().to_vec();
        }
        _ => m = vec![],
    }
    m.extend_from_slice(payload);
    m
}

// ------------------------------------------------------------------------------------------------
// kind "ip4": IPv4 header checksum

fn run_ip4(spec: &Spec, ctx: &mut Ctx) -> Result<(), Failure> {
    let h = build_ip4(spec);
    let mut z = h.to_bytes().to_vec();
    z[10] = 0;
    z[11] = 0;
    let sum = ref_sum(&z);
    let exp = !ref_fold(sum);
    ctx.class("k:ip4");
    ctx.class(&format!("ip4:options:{}", if h.options.is_empty() { "none" } else if h.options.len() == 40 { "40" } else { "4-36" }));
    if exp == 0 {
        ctx.class("ip4:checksum==0");
    }
    let shape = if h.options.is_empty() { "no-options" } else { "options" };
    let mut ck = Ck { ctx, spec };

    ck.eq16("Ipv4Header::calc_header_checksum", "Ipv4Header", "rfc791-header-checksum", shape, h.calc_header_checksum(), exp)?;
    ck.note("ip4.calc", z.len(), sum, "w");

    let mut w = Vec::new();
    h.write(&mut w).unwrap();
    let mut wz = w.clone();
    if wz.len() >= 12 {
        wz[10] = 0;
        wz[11] = 0;
    }
    ck.ctx.eval(1);
    if wz != z {
        ck.fail("Ipv4Header::write", "Ipv4Header", "bytes-other-than-checksum", shape, format!("write() emitted {} but to_bytes() is {} (checksum field zeroed in both)", hex(&wz), hex(&z)))?;
    } else {
        ck.eq16("Ipv4Header::write", "Ipv4Header", "filled-in-checksum", shape, u16::from_be_bytes([w[10], w[11]]), exp)?;
        ck.eq16("Ipv4Header::write", "Ipv4Header", "written-header-sum-folds-to-ffff", shape, ref_fold(ref_sum(&w)), 0xffff)?;
    }
    ck.note("ip4.write", z.len(), sum, "w");

    match Ipv4HeaderSlice::from_slice(&w) {
        Ok(s) => {
            ck.eq16("Ipv4HeaderSlice::to_header+calc_header_checksum", "Ipv4HeaderSlice", "rfc791-header-checksum", shape, s.to_header().calc_header_checksum(), exp)?;
            ck.eq16("Ipv4HeaderSlice::header_checksum", "Ipv4HeaderSlice", "reads-written-checksum", shape, s.header_checksum(), exp)?;
            ck.note("ip4.slice", z.len(), sum, "w");
        }
        Err(_) => ck.ctx.class("ip4:slice-parse-error"),
    }
    Ok(())
}

// ------------------------------------------------------------------------------------------------
// kind "udp"

fn run_udp(spec: &Spec, ctx: &mut Ctx) -> Result<(), Failure> {
    let payload = spec.b("payload");
    let v6 = is_v6(spec);
    let m = ref_message(spec);
    let sum = ref_sum(&m);
    let raw = !ref_fold(sum);
    // RFC 768: "If the computed checksum is zero, it is transmitted as all ones"
    let exp = nz(raw);
    let (sp, dp) = (spec.n("sp") as u16, spec.n("dp") as u16);
    let h = UdpHeader { source_port: sp, destination_port: dp, length: (8 + payload.len()) as u16, checksum: spec.n("cks") as u16 };
    let fam = if v6 { "v6" } else { "v4" };
    let shape = if raw == 0 { format!("{}:computed-zero", fam) } else { fam.to_string() };
    let shape = shape.as_str();
    ctx.class("k:udp");
    ctx.class(if v6 { "udp:v6" } else { "udp:v4" });
    len_class(ctx, "payload", payload.len());
    if raw == 0 {
        ctx.class("udp:computed-zero(->ffff)");
    }
    let mut ck = Ck { ctx, spec };
    let hs_bytes = h.to_bytes();
    let from_slice = UdpHeaderSlice::from_slice(&hs_bytes).unwrap().to_header();
    let pre = if v6 { "udp6" } else { "udp4" };
    if v6 {
        let (src, dst): ([u8; 16], [u8; 16]) = (spec.arr("src"), spec.arr("dst"));
        let ip = build_ip6(spec);
        ck.res16("UdpHeader::calc_checksum_ipv6_raw", "UdpHeader", "rfc768+rfc8200-pseudo", shape, h.calc_checksum_ipv6_raw(src, dst, payload), exp)?;
        ck.res16("UdpHeader::calc_checksum_ipv6", "UdpHeader", "rfc768+rfc8200-pseudo", shape, h.calc_checksum_ipv6(&ip, payload), exp)?;
        ck.res16("UdpHeaderSlice::to_header+calc_checksum_ipv6_raw", "UdpHeaderSlice", "rfc768+rfc8200-pseudo", shape, from_slice.calc_checksum_ipv6_raw(src, dst, payload), exp)?;
        match UdpHeader::with_ipv6_checksum(sp, dp, &ip, payload) {
            Ok(x) => {
                ck.eq16("UdpHeader::with_ipv6_checksum", "UdpHeader", "filled-in-checksum", shape, x.checksum, exp)?;
                ck.eq16("UdpHeader::with_ipv6_checksum", "UdpHeader", "length-field", shape, x.length, h.length)?;
            }
            Err(e) => ck.fail("UdpHeader::with_ipv6_checksum", "UdpHeader", "unexpected-error", shape, format!("{:?}", e))?,
        }
        let mut t = TransportHeader::Udp(h.clone());
        match t.update_checksum_ipv6(&ip, payload) {
            Ok(()) => {
                let u = t.udp().unwrap();
                ck.eq16("TransportHeader::update_checksum_ipv6", "Udp", "filled-in-checksum", shape, u.checksum, exp)?;
                if (u.source_port, u.destination_port, u.length) != (sp, dp, h.length) {
                    ck.fail("TransportHeader::update_checksum_ipv6", "Udp", "other-fields-unchanged", shape, format!("{:?}", u))?;
                }
            }
            Err(e) => ck.fail("TransportHeader::update_checksum_ipv6", "Udp", "unexpected-error", shape, format!("{:?}", e))?,
        }
    } else {
        let (src, dst): ([u8; 4], [u8; 4]) = (spec.arr("src"), spec.arr("dst"));
        let ip = build_ip4(spec);
        ck.res16("UdpHeader::calc_checksum_ipv4_raw", "UdpHeader", "rfc768-pseudo", shape, h.calc_checksum_ipv4_raw(src, dst, payload), exp)?;
        ck.res16("UdpHeader::calc_checksum_ipv4", "UdpHeader", "rfc768-pseudo", shape, h.calc_checksum_ipv4(&ip, payload), exp)?;
        ck.res16("UdpHeaderSlice::to_header+calc_checksum_ipv4_raw", "UdpHeaderSlice", "rfc768-pseudo", shape, from_slice.calc_checksum_ipv4_raw(src, dst, payload), exp)?;
        match UdpHeader::with_ipv4_checksum(sp, dp, &ip, payload) {
            Ok(x) => {
                ck.eq16("UdpHeader::with_ipv4_checksum", "UdpHeader", "filled-in-checksum", shape, x.checksum, exp)?;
                ck.eq16("UdpHeader::with_ipv4_checksum", "UdpHeader", "length-field", shape, x.length, h.length)?;
            }
            Err(e) => ck.fail("UdpHeader::with_ipv4_checksum", "UdpHeader", "unexpected-error", shape, format!("{:?}", e))?,
        }
        let mut t = TransportHeader::Udp(h.clone());
        match t.update_checksum_ipv4(&ip, payload) {
            Ok(()) => {
                let u = t.udp().unwrap();
                ck.eq16("TransportHeader::update_checksum_ipv4", "Udp", "filled-in-checksum", shape, u.checksum, exp)?;
                if (u.source_port, u.destination_port, u.length) != (sp, dp, h.length) {
                    ck.fail("TransportHeader::update_checksum_ipv4", "Udp", "other-fields-unchanged", shape, format!("{:?}", u))?;
                }
            }
            Err(e) => ck.fail("TransportHeader::update_checksum_ipv4", "Udp", "unexpected-error", shape, format!("{:?}", e))?,
        }
    }
    for f in ["raw", "hdr", "slice", "with", "update"] {
        ck.note(&format!("{}.{}", pre, f), m.len(), sum, "w");
    }
    Ok(())
}

// ------------------------------------------------------------------------------------------------
// kind "tcp"

fn run_tcp(spec: &Spec, ctx: &mut Ctx) -> Result<(), Failure> {
    let payload = spec.b("payload");
    let v6 = is_v6(spec);
    let m = ref_message(spec);
    let sum = ref_sum(&m);
    // RFC 9293 §3.1: plain one's complement, no zero substitution
    let exp = !ref_fold(sum);
    let h = build_tcp(spec);
    let hb = h.to_bytes(); // contains the arbitrary old checksum value, which must be ignored
    let fam = if v6 { "v6" } else { "v4" };
    let shape = format!("{}:opts{}", fam, if h.options.is_empty() { "0" } else { "N" });
    let shape = shape.as_str();
    ctx.class("k:tcp");
    ctx.class(if v6 { "tcp:v6" } else { "tcp:v4" });
    ctx.class(&format!("tcp:options:{}", if h.options.is_empty() { "none" } else if h.options.len() == 40 { "40" } else { "4-36" }));
    len_class(ctx, "payload", payload.len());
    if exp == 0 {
        ctx.class("tcp:checksum==0");
    }
    let mut ck = Ck { ctx, spec };
    let hs = match TcpHeaderSlice::from_slice(&hb) {
        Ok(x) => x,
        Err(e) => return ck.fail("TcpHeaderSlice::from_slice", "TcpHeaderSlice", "parse-own-serialisation", shape, format!("{:?}", e)),
    };
    let mut whole = hb.to_vec();
    whole.extend_from_slice(payload);
    let ts = match TcpSlice::from_slice(&whole) {
        Ok(x) => x,
        Err(e) => return ck.fail("TcpSlice::from_slice", "TcpSlice", "parse-own-serialisation", shape, format!("{:?}", e)),
    };
    if v6 {
        let (src, dst): ([u8; 16], [u8; 16]) = (spec.arr("src"), spec.arr("dst"));
        let ip = build_ip6(spec);
        let ipb = ip.to_bytes();
        let ips = Ipv6HeaderSlice::from_slice(&ipb).unwrap();
        ck.res16("TcpHeader::calc_checksum_ipv6_raw", "TcpHeader", "rfc9293+rfc8200-pseudo", shape, h.calc_checksum_ipv6_raw(src, dst, payload), exp)?;
        ck.res16("TcpHeader::calc_checksum_ipv6", "TcpHeader", "rfc9293+rfc8200-pseudo", shape, h.calc_checksum_ipv6(&ip, payload), exp)?;
        ck.res16("TcpHeaderSlice::calc_checksum_ipv6_raw", "TcpHeaderSlice", "rfc9293+rfc8200-pseudo", shape, hs.calc_checksum_ipv6_raw(src, dst, payload), exp)?;
        ck.res16("TcpHeaderSlice::calc_checksum_ipv6", "TcpHeaderSlice", "rfc9293+rfc8200-pseudo", shape, hs.calc_checksum_ipv6(&ips, payload), exp)?;
        ck.res16("TcpSlice::calc_checksum_ipv6", "TcpSlice", "rfc9293+rfc8200-pseudo", shape, ts.calc_checksum_ipv6(src, dst), exp)?;
        let mut t = TransportHeader::Tcp(h.clone());
        match t.update_checksum_ipv6(&ip, payload) {
            Ok(()) => {
                let mut u = t.tcp().unwrap();
                ck.eq16("TransportHeader::update_checksum_ipv6", "Tcp", "filled-in-checksum", shape, u.checksum, exp)?;
                u.checksum = h.checksum;
                if u != h {
                    ck.fail("TransportHeader::update_checksum_ipv6", "Tcp", "other-fields-unchanged", shape, format!("{:?}", u))?;
                }
            }
            Err(e) => ck.fail("TransportHeader::update_checksum_ipv6", "Tcp", "unexpected-error", shape, format!("{:?}", e))?,
        }
    } else {
        let (src, dst): ([u8; 4], [u8; 4]) = (spec.arr("src"), spec.arr("dst"));
        let ip = build_ip4(spec);
        let ipb = ip.to_bytes();
        let ips = Ipv4HeaderSlice::from_slice(&ipb).unwrap();
        ck.res16("TcpHeader::calc_checksum_ipv4_raw", "TcpHeader", "rfc9293-pseudo", shape, h.calc_checksum_ipv4_raw(src, dst, payload), exp)?;
        ck.res16("TcpHeader::calc_checksum_ipv4", "TcpHeader", "rfc9293-pseudo", shape, h.calc_checksum_ipv4(&ip, payload), exp)?;
        ck.res16("TcpHeaderSlice::calc_checksum_ipv4_raw", "TcpHeaderSlice", "rfc9293-pseudo", shape, hs.calc_checksum_ipv4_raw(src, dst, payload), exp)?;
        ck.res16("TcpHeaderSlice::calc_checksum_ipv4", "TcpHeaderSlice", "rfc9293-pseudo", shape, hs.calc_checksum_ipv4(&ips, payload), exp)?;
        ck.res16("TcpSlice::calc_checksum_ipv4", "TcpSlice", "rfc9293-pseudo", shape, ts.calc_checksum_ipv4(src, dst), exp)?;
        let mut t = TransportHeader::Tcp(h.clone());
        match t.update_checksum_ipv4(&ip, payload) {
            Ok(()) => {
                let mut u = t.tcp().unwrap();
                ck.eq16("TransportHeader::update_checksum_ipv4", "Tcp", "filled-in-checksum", shape, u.checksum, exp)?;
                u.checksum = h.checksum;
                if u != h {
                    ck.fail("TransportHeader::update_checksum_ipv4", "Tcp", "other-fields-unchanged", shape, format!("{:?}", u))?;
                }
            }
            Err(e) => ck.fail("TransportHeader::update_checksum_ipv4", "Tcp", "unexpected-error", shape, format!("{:?}", e))?,
        }
    }
    let pre = if v6 { "tcp6" } else { "tcp4" };
    for f in ["raw", "hdr", "hslice.raw", "hslice.hdr", "slice", "update"] {
        ck.note(&format!("{}.{}", pre, f), m.len(), sum, "w");
    }
    Ok(())
}

// ------------------------------------------------------------------------------------------------
// kind "icmp4"

fn icmp4_name(t: &Icmpv4Type) -> &'static str {
    match t {
        Icmpv4Type::Unknown { .. } => "Unknown",
        Icmpv4Type::EchoReply(_) => "EchoReply",
        Icmpv4Type::DestinationUnreachable(_) => "DestinationUnreachable",
        Icmpv4Type::Redirect(_) => "Redirect",
        Icmpv4Type::EchoRequest(_) => "EchoRequest",
        Icmpv4Type::TimeExceeded(_) => "TimeExceeded",
        Icmpv4Type::ParameterProblem(_) => "ParameterProblem",
        Icmpv4Type::TimestampRequest(_) => "TimestampRequest",
        Icmpv4Type::TimestampReply(_) => "TimestampReply",
    }
}

fn run_icmp4(spec: &Spec, ctx: &mut Ctx) -> Result<(), Failure> {
    let payload = spec.b("payload");
    let t = build_icmp4(spec);
    let m = ref_message(spec);
    let sum = ref_sum(&m);
    // RFC 792: one's complement of the sum of the ICMP message, no pseudo header
    let exp = !ref_fold(sum);
    let name = icmp4_name(&t);
    ctx.class("k:icmp4");
    ctx.class(&format!("icmp4:{}", name));
    len_class(ctx, "payload", payload.len());
    if exp == 0 {
        ctx.class("icmp4:checksum==0");
    }
    let mut ck = Ck { ctx, spec };
    ck.eq16("Icmpv4Type::calc_checksum", "Icmpv4Type", "rfc792", name, t.calc_checksum(payload), exp)?;
    ck.eq16("Icmpv4Header::with_checksum", "Icmpv4Header", "filled-in-checksum", name, Icmpv4Header::with_checksum(t.clone(), payload).checksum, exp)?;
    let mut h = Icmpv4Header { icmp_type: t.clone(), checksum: spec.n("cks") as u16 };
    h.update_checksum(payload);
    ck.eq16("Icmpv4Header::update_checksum", "Icmpv4Header", "filled-in-checksum", name, h.checksum, exp)?;
    if h.icmp_type != t {
        ck.fail("Icmpv4Header::update_checksum", "Icmpv4Header", "other-fields-unchanged", name, format!("{:?}", h))?;
    }
    // through TransportHeader; the IP header (either family) must not influence an ICMPv4 checksum
    let hdr0 = Icmpv4Header { icmp_type: t.clone(), checksum: spec.n("cks") as u16 };
    let mut tr = TransportHeader::Icmpv4(hdr0.clone());
    let ip4 = build_ip4(spec);
    match tr.update_checksum_ipv4(&ip4, payload) {
        Ok(()) => ck.eq16("TransportHeader::update_checksum_ipv4", "Icmpv4", "filled-in-checksum", name, tr.icmpv4().unwrap().checksum, exp)?,
        Err(e) => ck.fail("TransportHeader::update_checksum_ipv4", "Icmpv4", "unexpected-error", name, format!("{:?}", e))?,
    }
    let mut tr = TransportHeader::Icmpv4(hdr0);
    let ip6 = build_ip6(spec);
    match tr.update_checksum_ipv6(&ip6, payload) {
        Ok(()) => ck.eq16("TransportHeader::update_checksum_ipv6", "Icmpv4", "filled-in-checksum", name, tr.icmpv4().unwrap().checksum, exp)?,
        Err(e) => ck.fail("TransportHeader::update_checksum_ipv6", "Icmpv4", "unexpected-error", name, format!("{:?}", e))?,
    }
    for f in ["calc", "with", "update", "tr4", "tr6"] {
        ck.note(&format!("icmp4.{}", f), m.len(), sum, "w");
    }
    Ok(())
}

// ------------------------------------------------------------------------------------------------
// kind "icmp6"

fn icmp6_name(t: &Icmpv6Type) -> &'static str {
    match t {
        Icmpv6Type::Unknown { .. } => "Unknown",
        Icmpv6Type::DestinationUnreachable(_) => "DestinationUnreachable",
        Icmpv6Type::PacketTooBig { .. } => "PacketTooBig",
        Icmpv6Type::TimeExceeded(_) => "TimeExceeded",
        Icmpv6Type::ParameterProblem(_) => "ParameterProblem",
        Icmpv6Type::EchoRequest(_) => "EchoRequest",
        Icmpv6Type::EchoReply(_) => "EchoReply",
        Icmpv6Type::RouterSolicitation => "RouterSolicitation",
        Icmpv6Type::RouterAdvertisement(_) => "RouterAdvertisement",
        Icmpv6Type::NeighborSolicitation => "NeighborSolicitation",
        Icmpv6Type::NeighborAdvertisement(_) => "NeighborAdvertisement",
        Icmpv6Type::Redirect => "Redirect",
    }
}

/// reference verdict: the complete sum (pseudo header + message incl. checksum) folds to 0xffff
fn ref_icmp6_valid(msg: &[u8], src: [u8; 16], dst: [u8; 16]) -> bool {
    ref_fold(ref_sum(&pseudo6(src, dst, msg.len() as u32, 58)) + ref_sum(msg)) == 0xffff
}

fn run_icmp6(spec: &Spec, ctx: &mut Ctx) -> Result<(), Failure> {
    let payload = spec.b("payload");
    let t = build_icmp6(spec);
    let (src, dst): ([u8; 16], [u8; 16]) = (spec.arr("src"), spec.arr("dst"));
    let m = ref_message(spec);
    let sum = ref_sum(&m);
    // RFC 4443 §2.3
    let exp = !ref_fold(sum);
    let name = icmp6_name(&t);
    ctx.class("k:icmp6");
    ctx.class(&format!("icmp6:{}", name));
    len_class(ctx, "payload", payload.len());
    if exp == 0 {
        ctx.class("icmp6:checksum==0");
    }
    let mut ck = Ck { ctx, spec };
    ck.res16("Icmpv6Type::calc_checksum", "Icmpv6Type", "rfc4443-pseudo", name, t.calc_checksum(src, dst, payload), exp)?;
    ck.res16("Icmpv6Header::with_checksum", "Icmpv6Header", "filled-in-checksum", name, Icmpv6Header::with_checksum(t, src, dst, payload).map(|h| h.checksum), exp)?;
    let mut h = Icmpv6Header { icmp_type: t, checksum: spec.n("cks") as u16 };
    let r = h.update_checksum(src, dst, payload);
    ck.res16("Icmpv6Header::update_checksum", "Icmpv6Header", "filled-in-checksum", name, r.map(|_| h.checksum), exp)?;
    ck.res16("Icmpv6Type::to_header", "Icmpv6Type", "filled-in-checksum", name, t.to_header(src, dst, payload).map(|h| h.checksum), exp)?;
    let ip6 = build_ip6(spec);
    let mut tr = TransportHeader::Icmpv6(Icmpv6Header { icmp_type: t, checksum: spec.n("cks") as u16 });
    let r = tr.update_checksum_ipv6(&ip6, payload);
    ck.res16("TransportHeader::update_checksum_ipv6", "Icmpv6", "filled-in-checksum", name, r.map(|_| tr.clone().icmpv6().unwrap().checksum), exp)?;
    // no checksum is defined for ICMPv6 in IPv4; the crate documents an error. Only measured.
    let mut tr = TransportHeader::Icmpv6(Icmpv6Header { icmp_type: t, checksum: 0 });
    match tr.update_checksum_ipv4(&build_ip4(spec), payload) {
        Err(_) => ck.ctx.class("icmp6:in-ipv4:err"),
        Ok(()) => ck.ctx.class("icmp6:in-ipv4:ok"),
    }
    for f in ["calc", "with", "update", "to_header", "tr6"] {
        ck.note(&format!("icmp6.{}", f), m.len(), sum, "w");
    }

    // validation: a message carrying the reference checksum, then a perturbed one
    let mut msg = Icmpv6Header { icmp_type: t, checksum: exp }.to_bytes().to_vec();
    msg.extend_from_slice(payload);
    let rv = ref_icmp6_valid(&msg, src, dst);
    match Icmpv6Slice::from_slice(&msg) {
        Ok(s) => ck.truth("Icmpv6Slice::is_checksum_valid", "Icmpv6Slice", "accepts-iff-sum-folds-to-ffff", "reference-checksum", s.is_checksum_valid(src, dst), rv, "message with the reference checksum")?,
        Err(e) => ck.fail("Icmpv6Slice::from_slice", "Icmpv6Slice", "parse-own-serialisation", name, format!("{:?}", e))?,
    }
    ck.ctx.class(if rv { "icmp6:valid:reference-says-valid" } else { "icmp6:valid:reference-says-INVALID(!)" });
    ck.note("icmp6.valid", m.len(), sum, "w");

    let (mut src2, mut dst2) = (src, dst);
    let cmode = spec.n("cmode");
    let cname = match cmode {
        0 => return Ok(()),
        1 => {
            // single bit flip inside the message
            let bit = (spec.n("cbit") as usize) % (msg.len() * 8);
            msg[bit / 8] ^= 0x80 >> (bit % 8);
            "bitflip-message"
        }
        2 => {
            // single bit flip in the addresses (pseudo header)
            let bit = (spec.n("cbit") as usize) % 256;
            if bit < 128 {
                src2[bit / 8] ^= 0x80 >> (bit % 8);
            } else {
                dst2[(bit - 128) / 8] ^= 0x80 >> (bit % 8);
            }
            "bitflip-address"
        }
        3 => {
            // arbitrary checksum field
            let c = (spec.n("ccks") as u16).to_be_bytes();
            msg[2] = c[0];
            msg[3] = c[1];
            "other-checksum-field"
        }
        4 => {
            // the other representation of zero in the checksum field (0x0000 <-> 0xffff), else complement
            let c = u16::from_be_bytes([msg[2], msg[3]]);
            let c2 = (!c).to_be_bytes();
            msg[2] = c2[0];
            msg[3] = c2[1];
            if c == 0 || c == 0xffff {
                "other-zero-in-checksum-field"
            } else {
                "complemented-checksum-field"
            }
        }
        _ => {
            // truncated by one byte / extended by one byte (length is part of the pseudo header)
            if spec.n("cbit") % 2 == 0 && msg.len() > 8 {
                msg.pop();
                "truncated-by-1"
            } else {
                msg.push(0);
                "extended-by-zero-byte"
            }
        }
    };
    let rv = ref_icmp6_valid(&msg, src2, dst2);
    ck.ctx.class(&format!("icmp6:corrupt:{}:{}", cname, if rv { "still-valid" } else { "invalid" }));
    match Icmpv6Slice::from_slice(&msg) {
        Ok(s) => ck.truth("Icmpv6Slice::is_checksum_valid", "Icmpv6Slice", "accepts-iff-sum-folds-to-ffff", cname, s.is_checksum_valid(src2, dst2), rv, cname)?,
        Err(e) => ck.fail("Icmpv6Slice::from_slice", "Icmpv6Slice", "parse-own-serialisation", cname, format!("{:?}", e))?,
    }
    ck.note("icmp6.corrupt", msg.len() + 40, ref_sum(&msg) + ref_sum(&pseudo6(src2, dst2, msg.len() as u32, 58)), "w");
    Ok(())
}

// ------------------------------------------------------------------------------------------------
// kind "igmp"

fn run_igmp(spec: &Spec, ctx: &mut Ctx) -> Result<(), Failure> {
    let payload = spec.b("payload");
    let t = build_igmp(spec);
    let m = ref_message(spec);
    let sum = ref_sum(&m);
    // RFC 2236 §2.3 / RFC 3376 §4.1.2: checksum over the whole IGMP message (IP payload)
    let exp = !ref_fold(sum);
    let name = match &t {
        IgmpType::MembershipQuery(_) => "MembershipQuery",
        IgmpType::MembershipQueryWithSources(_) => "MembershipQueryWithSources",
        IgmpType::MembershipReportV1(_) => "MembershipReportV1",
        IgmpType::MembershipReportV2(_) => "MembershipReportV2",
        IgmpType::MembershipReportV3(_) => "MembershipReportV3",
        IgmpType::LeaveGroup(_) => "LeaveGroup",
        IgmpType::Unknown(_) => "Unknown",
    };
    ctx.class("k:igmp");
    ctx.class(&format!("igmp:{}", name));
    len_class(ctx, "payload", payload.len());
    if exp == 0 {
        ctx.class("igmp:checksum==0");
    }
    let mut ck = Ck { ctx, spec };
    let h = IgmpHeader { igmp_type: t.clone(), checksum: spec.n("cks") as u16 };
    ck.eq16("IgmpHeader::calc_checksum", "IgmpHeader", "rfc2236/3376-whole-message", name, h.calc_checksum(payload), exp)?;
    let w = IgmpHeader::with_checksum(t.clone(), payload);
    ck.eq16("IgmpHeader::with_checksum", "IgmpHeader", "filled-in-checksum", name, w.checksum, exp)?;
    if w.igmp_type != t {
        ck.fail("IgmpHeader::with_checksum", "IgmpHeader", "other-fields-unchanged", name, format!("{:?}", w))?;
    }
    ck.note("igmp.calc", m.len(), sum, "w");
    ck.note("igmp.with", m.len(), sum, "w");
    Ok(())
}

// ------------------------------------------------------------------------------------------------
// kind "builder": packets emitted by PacketBuilder

pub const BUILDER_TRANSPORTS: u64 = 12;

fn vlan_id(x: u64) -> VlanId {
    VlanId::try_new((x & 0xfff) as u16).unwrap()
}

fn builder_ip_headers(spec: &Spec, v6: bool) -> IpHeaders {
    let ext = spec.n("ext");
    let ed = spec.b("extdata");
    let take = |from: usize, n: usize| -> Vec<u8> { (0..n).map(|i| ed.get(from + i).copied().unwrap_or(0)).collect() };
    let auth = if ext & 4 != 0 {
        let icv_len = ((spec.n("icv") % 4) * 4) as usize;
        Some(IpAuthHeader::new(IpNumber(0), u32::from_be_bytes(take(0, 4).try_into().unwrap()), u32::from_be_bytes(take(4, 4).try_into().unwrap()), &take(8, icv_len)).unwrap())
    } else {
        None
    };
    if v6 {
        let mut e = Ipv6Extensions::default();
        if ext & 1 != 0 {
            e.hop_by_hop_options = Some(Ipv6RawExtHeader::new_raw(IpNumber(0), &take(20, 6)).unwrap());
        }
        if ext & 2 != 0 {
            e.destination_options = Some(Ipv6RawExtHeader::new_raw(IpNumber(0), &take(26, 14)).unwrap());
        }
        e.auth = auth;
        IpHeaders::Ipv6(build_ip6(spec), e)
    } else {
        IpHeaders::Ipv4(build_ip4(spec), Ipv4Extensions { auth })
    }
}

fn builder_ip_step(spec: &Spec) -> PacketBuilderStep<IpHeaders> {
    let ipmode = spec.n("ipmode") % 4;
    let v6 = ipmode % 2 == 1;
    let ttl = spec.arr::<8>("ipm")[0];
    macro_rules! ip {
        ($b:expr) => {
            match ipmode {
                0 => $b.ipv4(spec.arr("src"), spec.arr("dst"), ttl),
                1 => $b.ipv6(spec.arr("src"), spec.arr("dst"), ttl),
                _ => $b.ip(builder_ip_headers(spec, v6)),
            }
        };
    }
    let mac: [u8; 12] = spec.arr("mac");
    let (m1, m2): ([u8; 6], [u8; 6]) = (mac[..6].try_into().unwrap(), mac[6..].try_into().unwrap());
    match spec.n("link") % 5 {
        0 => match ipmode {
            0 => PacketBuilder::ipv4(spec.arr("src"), spec.arr("dst"), ttl),
            1 => PacketBuilder::ipv6(spec.arr("src"), spec.arr("dst"), ttl),
            _ => PacketBuilder::ip(builder_ip_headers(spec, v6)),
        },
        1 => ip!(PacketBuilder::ethernet2(m1, m2)),
        2 => ip!(PacketBuilder::ethernet2(m1, m2).single_vlan(vlan_id(spec.n("vlan")))),
        3 => ip!(PacketBuilder::ethernet2(m1, m2).double_vlan(vlan_id(spec.n("vlan")), vlan_id(spec.n("vlan") >> 12))),
        _ => ip!(PacketBuilder::linux_sll(LinuxSllPacketType::OUTGOING, 6, spec.arr("mac"))),
    }
}

/// result of the own walk over the emitted bytes
struct Walk {
    v6: bool,
    ip_off: usize,
    ip_hdr_len: usize,
    src: Vec<u8>,
    dst: Vec<u8>,
    tr_off: usize,
    proto: u8,
}

fn walk(out: &[u8], link: u64) -> Result<Walk, String> {
    let ip_off = match link % 5 {
        0 => 0,
        1 => 14,
        2 => 18,
        3 => 22,
        _ => 16,
    };
    if out.len() < ip_off + 20 {
        return Err(format!("output of {} bytes too short for an IP header at {}", out.len(), ip_off));
    }
    let ip = &out[ip_off..];
    match ip[0] >> 4 {
        4 => {
            let hl = ((ip[0] & 0xf) as usize) * 4;
            if hl < 20 || ip.len() < hl {
                return Err(format!("bad ihl {}", hl));
            }
            let mut proto = ip[9];
            let mut p = hl;
            if proto == 51 {
                if ip.len() < p + 12 {
                    return Err("short AH".into());
                }
                let l = (ip[p + 1] as usize + 2) * 4;
                proto = ip[p];
                p += l;
            }
            if ip.len() < p {
                return Err("AH exceeds output".into());
            }
            Ok(Walk { v6: false, ip_off, ip_hdr_len: hl, src: ip[12..16].to_vec(), dst: ip[16..20].to_vec(), tr_off: ip_off + p, proto })
        }
        6 => {
            if ip.len() < 40 {
                return Err("short ipv6 header".into());
            }
            let mut next = ip[6];
            let mut p = 40;
            loop {
                let l = match next {
                    0 | 60 | 43 => {
                        if ip.len() < p + 2 {
                            return Err("short ext".into());
                        }
                        (ip[p + 1] as usize + 1) * 8
                    }
                    51 => {
                        if ip.len() < p + 2 {
                            return Err("short AH".into());
                        }
                        (ip[p + 1] as usize + 2) * 4
                    }
                    _ => break,
                };
                if ip.len() < p + l {
                    return Err("ext exceeds output".into());
                }
                next = ip[p];
                p += l;
            }
            Ok(Walk { v6: true, ip_off, ip_hdr_len: 40, src: ip[8..24].to_vec(), dst: ip[24..40].to_vec(), tr_off: ip_off + p, proto: next })
        }
        v => Err(format!("ip version nibble {}", v)),
    }
}

fn run_builder(spec: &Spec, ctx: &mut Ctx) -> Result<(), Failure> {
    let payload = spec.b("payload");
    let tr = spec.n("tr") % BUILDER_TRANSPORTS;
    let wm = spec.n("wm") % 3;
    let ipmode = spec.n("ipmode") % 4;
    let v6 = ipmode % 2 == 1;
    let step = builder_ip_step(spec);
    let w4: [u8; 16] = spec.arr("w");
    let bytes5to8 = [w4[0], w4[1], w4[2], w4[3]];
    let (id, seq) = (u16::from_be_bytes([w4[0], w4[1]]), u16::from_be_bytes([w4[2], w4[3]]));

    macro_rules! emit {
        ($s:expr) => {{
            let s = $s;
            let size = s.size(payload.len());
            match wm {
                0 => {
                    let mut v = Vec::new();
                    s.write(&mut v, payload).map(|_| v).map_err(|e| format!("{:?}", e))
                }
                1 => {
                    let mut v = Vec::new();
                    s.write_to_vec(&mut v, payload).map(|_| v).map_err(|e| format!("{:?}", e))
                }
                _ => {
                    let mut v = vec![0xCCu8; size + 3];
                    s.write_to_slice(&mut v, payload).map(|n| v[..n].to_vec()).map_err(|e| format!("{:?}", e))
                }
            }
        }};
    }
    // (emitted bytes, protocol number the pseudo header must carry, offset of the checksum field)
    let (res, proto, cks_off, tname): (Result<Vec<u8>, String>, u8, usize, &str) = match tr {
        0 => (emit!(step.udp(spec.n("sp") as u16, spec.n("dp") as u16)), 17, 6, "udp"),
        1 => {
            let f = spec.n("flags");
            let mut s = step.tcp(spec.n("sp") as u16, spec.n("dp") as u16, spec.n("seq") as u32, spec.n("win") as u16);
            if f & 0x100 != 0 {
                s = s.ns();
            }
            if f & 1 != 0 {
                s = s.fin();
            }
            if f & 2 != 0 {
                s = s.syn();
            }
            if f & 4 != 0 {
                s = s.rst();
            }
            if f & 8 != 0 {
                s = s.psh();
            }
            if f & 16 != 0 {
                s = s.ack(spec.n("ack") as u32);
            }
            if f & 32 != 0 {
                s = s.urg(spec.n("urg") as u16);
            }
            if f & 64 != 0 {
                s = s.ece();
            }
            if f & 128 != 0 {
                s = s.cwr();
            }
            let o = spec.b("opts");
            let s = s.options_raw(&o[..o.len().min(40)]).unwrap();
            (emit!(s), 6, 16, "tcp")
        }
        2 => (emit!(step.tcp_header(build_tcp(spec))), 6, 16, "tcp_header"),
        3 => (emit!(step.icmpv4(build_icmp4(spec))), 1, 2, "icmpv4"),
        4 => (emit!(step.icmpv4_raw(spec.n("ty") as u8, spec.n("code") as u8, bytes5to8)), 1, 2, "icmpv4_raw"),
        5 => (emit!(step.icmpv4_echo_request(id, seq)), 1, 2, "icmpv4_echo_request"),
        6 => (emit!(step.icmpv4_echo_reply(id, seq)), 1, 2, "icmpv4_echo_reply"),
        7 => (emit!(step.icmpv6(build_icmp6(spec))), 58, 2, "icmpv6"),
        8 => (emit!(step.icmpv6_raw(spec.n("ty") as u8, spec.n("code") as u8, bytes5to8)), 58, 2, "icmpv6_raw"),
        9 => (emit!(step.icmpv6_echo_request(id, seq)), 58, 2, "icmpv6_echo_request"),
        10 => (emit!(step.icmpv6_echo_reply(id, seq)), 58, 2, "icmpv6_echo_reply"),
        _ => {
            // no transport header: only the IPv4 header checksum is filled in. Protocol numbers that
            // are IP extension headers are avoided (they would need the extension to be present).
            let n = match spec.n("ty") as u8 {
                0 | 43 | 44 | 51 | 60 | 135 | 139 | 140 => 253,
                x => x,
            };
            let r = match wm {
                0 => {
                    let mut v = Vec::new();
                    step.write(&mut v, IpNumber(n), payload).map(|_| v).map_err(|e| format!("{:?}", e))
                }
                1 => {
                    let mut v = Vec::new();
                    step.write_to_vec(&mut v, IpNumber(n), payload).map(|_| v).map_err(|e| format!("{:?}", e))
                }
                _ => {
                    let size = step.size(payload.len());
                    let mut v = vec![0xCCu8; size + 3];
                    step.write_to_slice(&mut v, IpNumber(n), payload).map(|k| v[..k].to_vec()).map_err(|e| format!("{:?}", e))
                }
            };
            (r, n, usize::MAX, "ip-only")
        }
    };
    let fam = if v6 { "v6" } else { "v4" };
    ctx.class("k:builder");
    ctx.class(&format!("builder:{}:{}", tname, fam));
    ctx.class(&format!("builder:link{}", spec.n("link") % 5));
    ctx.class(&format!("builder:ipmode{}{}", ipmode, if ipmode >= 2 { format!(":ext{}", spec.n("ext") % 8) } else { String::new() }));
    len_class(ctx, "payload", payload.len());
    let out = match res {
        Ok(o) => o,
        Err(e) => {
            // nothing emitted: nothing to verify (icmpv6 in ipv4 is documented to be refused)
            let short: String = e.chars().take_while(|c| c.is_alphanumeric()).collect();
            ctx.class(&format!("builder:err:{}:{}", if proto == 58 && !v6 { "icmp6-in-v4" } else { "other" }, short));
            return Ok(());
        }
    };
    let shape = format!("{}:{}", tname, fam);
    let shape = shape.as_str();
    let mut ck = Ck { ctx, spec };
    let w = match walk(&out, spec.n("link")) {
        Ok(w) => w,
        Err(e) => return ck.fail("PacketBuilder::write", "output", "own-walk-of-emitted-bytes", shape, format!("{} in {}", e, hex(&out))),
    };
    if w.v6 != v6 {
        return ck.fail("PacketBuilder::write", "output", "ip-version", shape, hex(&out));
    }
    if !w.v6 {
        // RFC 791 header checksum
        let hdr = &out[w.ip_off..w.ip_off + w.ip_hdr_len];
        let mut z = hdr.to_vec();
        z[10] = 0;
        z[11] = 0;
        let s = ref_sum(&z);
        ck.eq16("PacketBuilder::write", "Ipv4Header", "filled-in-header-checksum", shape, u16::from_be_bytes([hdr[10], hdr[11]]), !ref_fold(s))?;
        ck.eq16("PacketBuilder::write", "Ipv4Header", "header-sum-folds-to-ffff", shape, ref_fold(ref_sum(hdr)), 0xffff)?;
        ck.note("bld.ip4", z.len(), s, "w");
    }
    if cks_off == usize::MAX {
        return Ok(());
    }
    if w.proto != proto {
        return ck.fail("PacketBuilder::write", tname, "protocol-number-before-transport", shape, format!("expected {} found {} in {}", proto, w.proto, hex(&out[..out.len().min(120)])));
    }
    let seg = &out[w.tr_off..];
    if seg.len() < cks_off + 2 || seg.len() < payload.len() || &seg[seg.len() - payload.len()..] != payload {
        return ck.fail("PacketBuilder::write", tname, "transport-segment-located", shape, hex(&out[..out.len().min(160)]));
    }
    let mut m: Vec<u8> = match (proto, w.v6) {
        (1, _) => vec![],
        (_, false) => pseudo4(w.src.as_slice().try_into().unwrap(), w.dst.as_slice().try_into().unwrap(), proto, seg.len() as u16),
        (_, true) => pseudo6(w.src.as_slice().try_into().unwrap(), w.dst.as_slice().try_into().unwrap(), seg.len() as u32, proto),
    };
    let base = m.len();
    m.extend_from_slice(seg);
    m[base + cks_off] = 0;
    m[base + cks_off + 1] = 0;
    let sum = ref_sum(&m);
    let raw = !ref_fold(sum);
    let exp = if proto == 17 { nz(raw) } else { raw };
    if proto == 17 && raw == 0 {
        ck.ctx.class("builder:udp:computed-zero(->ffff)");
    }
    let field = u16::from_be_bytes([seg[cks_off], seg[cks_off + 1]]);
    let clause = if proto == 17 && raw == 0 { "filled-in-transport-checksum(udp-zero-rule)" } else { "filled-in-transport-checksum" };
    ck.eq16("PacketBuilder::write", tname, clause, shape, field, exp)?;
    ck.note(&format!("bld.{}.{}", tname, fam), m.len(), sum, "w");
    Ok(())
}

// ------------------------------------------------------------------------------------------------

pub fn run_spec(spec: &Spec, ctx: &mut Ctx) -> Result<(), Failure> {
    match spec.kind.as_str() {
        "helper" => run_helper(spec, ctx),
        "acc" => run_acc(spec, ctx),
        "ip4" => run_ip4(spec, ctx),
        "udp" => run_udp(spec, ctx),
        "tcp" => run_tcp(spec, ctx),
        "icmp4" => run_icmp4(spec, ctx),
        "icmp6" => run_icmp6(spec, ctx),
        "igmp" => run_igmp(spec, ctx),
        "builder" => run_builder(spec, ctx),
        k => ctx.fail(Failure::new("C09|replay|spec|unknown-kind|-", "unknown-kind", format!("unknown spec kind {:?}", k), spec.to_json())),
    }
}

impl Property for C09 {
    fn id(&self) -> &'static str {
        "C09"
    }
    fn post(&self, tier: Tier, seed: u64, root: &std::path::Path) -> Result<Value, Failure> {
        // thorough: coverage-guided search over the same tapes (libFuzzer + ASan on the generic
        // `prop_tape` target; budget by measured executions per second)
        if tier == Tier::Thorough {
            crate::fuzzapi::run_prop_fuzz_campaign("C09", root, seed, 300000, 8, self.tape_len())
        } else {
            Ok(Value::Null)
        }
    }
    fn tape_len(&self) -> usize {
        384
    }
    fn cases(&self, tier: Tier) -> u64 {
        tier.pick(super::c09_gen::QUICK_CASES, super::c09_gen::THOROUGH_CASES)
    }
    fn run_tape(&self, tape: &[u8], ctx: &mut Ctx) -> Result<(), Failure> {
        let spec = super::c09_gen::gen_spec(tape);
        run_spec(&spec, ctx)
    }
    fn exhaustive(&self, tier: Tier, shard: u64, nshards: u64, ctx: &mut Ctx) -> Result<(), Failure> {
        super::c09_gen::exhaustive(tier, shard, nshards, ctx)
    }
    fn replay(&self, input: &Value, ctx: &mut Ctx) -> Result<(), Failure> {
        match Spec::from_json(input) {
            Some(s) => run_spec(&s, ctx),
            None => Err(Failure::new("C09|replay|spec|unparsable|-", "unparsable", "replay input is not a C09 spec", input.clone())),
        }
    }
    fn describe(&self, tape: &[u8]) -> Value {
        super::c09_gen::gen_spec(tape).brief_json()
    }
    fn rule(&self) -> String {
        "Cases are concrete specs (numbers + byte strings) decoded from the tape: helper (byte string of length 0..70000 biased to 0x00/0xFF runs, placed at alignment 0..7 between non-zero junk, 0-4 random or strided even split offsets, optional fixed-width add_2/4/8/16bytes for chunks of that size, start accumulators for u32_16bit_word/u64_16bit_word with 16 bit lanes from {0,ffff,1,2,fffe,8000,random}), acc (accumulator + one fixed-width addition + fold), ip4, udp, tcp, icmp4, icmp6 (+ is_checksum_valid on the message with the reference checksum and on a perturbed copy: bit flip in message / address, other checksum field, other zero, length +-1), igmp, builder (link x ip mode x extension headers x 12 transport steps x 3 write methods). A fifth of the protocol cases have one payload word steered (by the reference) so that a chosen checksum (mostly 0x0000) results. Enumerated part: every length 0..=129 x fill patterns x every 2-way even split (and strided fixed-width chunkings), accumulator lane grids, every protocol entry point over payload lengths 0..=129. One evaluation = one comparison of a crate result (u16 checksum, emitted checksum field, or validity verdict) with the reference. Non-trivial: total summed length odd, or >= 1 carry out of 16 bits in the reference sum, or the data was added in more than one piece / by a fixed-width function. Distinct signature = (function, length mod 8, carry-count bucket {0,1,2-3,4-15,16-255,256+}, split shape {w, f0, s<1-4>[f][e]}).".into()
    }
    fn assumptions(&self) -> Vec<String> {
        vec![
            "Trusted: the reference ref_sum/ref_fold (RFC 1071 on big-endian words, u64 accumulator, odd byte padded on the right) and the pseudo-header layouts written from RFC 768 / 9293 / 4443 / 8200 §8.1.".into(),
            "Header bytes come from the crate's to_bytes() (round-trip correctness of to_bytes is C08's subject); the checksum field is zeroed by the harness.".into(),
            "The helper functions return the checksum in native byte order (their unit tests and all callers use .to_be()): the value compared is the one read big-endian from the returned value's memory bytes.".into(),
            "A start accumulator given to u32_16bit_word/u64_16bit_word functions is interpreted as the sum of its own native-endian 16 bit lanes (docs give no range restriction).".into(),
            "UDP: the length field equals 8 + payload length in all cases (pseudo header length = UDP length, RFC 768 / RFC 8200); jumbograms and the 2^16/2^32 payload limits are C14's subject.".into(),
            "ICMPv6 inside IPv4 (no checksum defined) is only measured, not asserted. IPv6 routing headers (final destination in the pseudo header) are not generated for the builder.".into(),
            "Builder errors (nothing emitted) are counted, not judged.".into(),
        ]
    }
    fn exhaustive_claim(&self, tier: Tier) -> Option<String> {
        Some(super::c09_gen::exhaustive_claim(tier))
    }
}
