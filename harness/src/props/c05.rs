//! C05: lax parsing extends strict parsing and flags truncation honestly.

use crate::engine::*;
use crate::gen::packet::*;
use crate::obs::cmp::*;
use crate::obs::cmp_packet::*;
use crate::props::c03::{classify, fault_kind, input_json, shape, slice_strict, strip_idx};
use crate::refdec::{self, PayId, RefOut};
use crate::tape::*;
use etherparse::*;
use serde_json::{json, Value};

pub struct C05;

enum LaxRes<'a> {
    Ok(LaxSlicedPacket<'a>),
    Err(ObsErr),
}

fn lax_entry_name(start: Start) -> &'static str {
    match start {
        Start::Ethernet => "LaxSlicedPacket::from_ethernet",
        Start::EtherType(_) => "LaxSlicedPacket::from_ether_type",
        Start::Ip => "LaxSlicedPacket::from_ip",
        Start::LinuxSll => "LaxPacketHeaders::from_linux_sll",
    }
}

fn obs_lax_ip_err(e: &err::ip::LaxHeaderSliceError) -> ObsErr {
    match e {
        err::ip::LaxHeaderSliceError::Len(l) => obs_len(l),
        err::ip::LaxHeaderSliceError::Content(c) => obs_ip(c),
    }
}

fn slice_lax<'a>(start: Start, b: &'a [u8]) -> Option<LaxRes<'a>> {
    Some(match start {
        Start::Ethernet => match LaxSlicedPacket::from_ethernet(b) {
            Ok(p) => LaxRes::Ok(p),
            Err(e) => LaxRes::Err(obs_len(&e)),
        },
        Start::EtherType(e) => LaxRes::Ok(LaxSlicedPacket::from_ether_type(EtherType(e), b)),
        Start::Ip => match LaxSlicedPacket::from_ip(b) {
            Ok(p) => LaxRes::Ok(p),
            Err(e) => LaxRes::Err(obs_lax_ip_err(&e)),
        },
        Start::LinuxSll => return None,
    })
}

/// acceptable stop layers (second element of stop_err) for a fault
pub fn stop_layers(at: &str) -> &'static [&'static str] {
    match at {
        "vlan" => &["VlanHeader"],
        "macsec" => &["MacsecHeader", "MacsecPacket"],
        "ip" => &["IpHeader"],
        "ipv4" => &["IpHeader", "Ipv4Header", "Ipv4Packet"],
        "ipv6" => &["IpHeader", "Ipv6Header", "Ipv6Packet"],
        "auth" => &["IpAuthHeader"],
        "hbh" => &["Ipv6HopByHopHeader", "Ipv6ExtHeader"],
        "dest" => &["Ipv6DestOptionsHeader", "Ipv6ExtHeader"],
        "route" => &["Ipv6RouteHeader", "Ipv6ExtHeader"],
        "frag" => &["Ipv6FragHeader"],
        "udp" => &["UdpHeader", "UdpPayload"],
        "tcp" => &["TcpHeader"],
        "icmpv4" => &["Icmpv4", "Icmpv4Timestamp", "Icmpv4TimestampReply"],
        "icmpv6" => &["Icmpv6"],
        "arp" => &["Arp"],
        "eth" => &["Ethernet2Header"],
        "sll" => &["LinuxSllHeader"],
        _ => &[],
    }
}

/// (a) crate strict result vs crate lax result on an input strict parsing accepts
fn metamorphic(c: &mut Cmp, s: &SlicedPacket, l: &LaxSlicedPacket) {
    c.eq("strict-vs-lax", "link", format!("{:?}", l.link), format!("{:?}", s.link));
    c.eq("strict-vs-lax", "link_exts.count", l.link_exts.len(), s.link_exts.len());
    for (i, (a, b)) in s.link_exts.iter().zip(l.link_exts.iter()).enumerate() {
        match (a, b) {
            (LinkExtSlice::Vlan(x), LaxLinkExtSlice::Vlan(y)) => c.eq("strict-vs-lax", "vlan", y == x, true),
            (LinkExtSlice::Macsec(x), LaxLinkExtSlice::Macsec(y)) => {
                c.eq("strict-vs-lax", "macsec.header", y.header == x.header, true);
                match (&x.payload, &y.payload) {
                    (MacsecPayloadSlice::Unmodified(p), LaxMacsecPayloadSlice::Unmodified(q)) => {
                        c.eq("strict-vs-lax", "macsec.payload", (q.ether_type, q.len_source, q.payload.as_ptr(), q.payload.len()), (p.ether_type, p.len_source, p.payload.as_ptr(), p.payload.len()));
                        c.eq("strict-vs-lax", "macsec.payload.incomplete", q.incomplete, false);
                    }
                    (MacsecPayloadSlice::Modified(p), LaxMacsecPayloadSlice::Modified { incomplete, payload }) => {
                        c.eq("strict-vs-lax", "macsec.payload", (payload.as_ptr(), payload.len()), (p.as_ptr(), p.len()));
                        c.eq("strict-vs-lax", "macsec.payload.incomplete", *incomplete, false);
                    }
                    _ => c.fail("strict-vs-lax", "macsec.payload.kind", "modified/unmodified differ".into()),
                }
            }
            _ => c.fail("strict-vs-lax", "link_exts.kind", format!("extension {} differs in kind", i)),
        }
    }
    match (&s.net, &l.net) {
        (None, None) => {}
        (Some(NetSlice::Ipv4(x)), Some(LaxNetSlice::Ipv4(y))) => {
            c.eq("strict-vs-lax", "ipv4.header", y.header() == x.header(), true);
            c.eq("strict-vs-lax", "ipv4.exts", y.extensions() == x.extensions(), true);
            let (p, q) = (x.payload(), y.payload());
            c.eq("strict-vs-lax", "ipv4.payload", (q.ip_number, q.fragmented, q.len_source, q.payload.as_ptr(), q.payload.len()), (p.ip_number, p.fragmented, p.len_source, p.payload.as_ptr(), p.payload.len()));
            c.eq("strict-vs-lax", "ipv4.payload.incomplete", q.incomplete, false);
        }
        (Some(NetSlice::Ipv6(x)), Some(LaxNetSlice::Ipv6(y))) => {
            c.eq("strict-vs-lax", "ipv6.header", y.header() == x.header(), true);
            c.eq("strict-vs-lax", "ipv6.exts", y.extensions() == x.extensions(), true);
            let (p, q) = (x.payload(), y.payload());
            c.eq("strict-vs-lax", "ipv6.payload", (q.ip_number, q.fragmented, q.len_source, q.payload.as_ptr(), q.payload.len()), (p.ip_number, p.fragmented, p.len_source, p.payload.as_ptr(), p.payload.len()));
            c.eq("strict-vs-lax", "ipv6.payload.incomplete", q.incomplete, false);
        }
        (Some(NetSlice::Arp(x)), Some(LaxNetSlice::Arp(y))) => c.eq("strict-vs-lax", "arp", y == x, true),
        _ => c.fail("strict-vs-lax", "net.kind", "net layer differs in kind/presence".into()),
    }
    c.eq("strict-vs-lax", "transport", format!("{:?}", l.transport), format!("{:?}", s.transport));
    c.eq("strict-vs-lax", "stop_err", format!("{:?}", l.stop_err), "None".to_string());
    // the derived views of both results: same ether payload (type and bytes), same VLAN headers and
    // ids. The length source label follows the one-directional rule used everywhere (C07's wording):
    // lax may name what strict names or fall back to `Slice` - on the unchanged tree it does so for
    // [MACsec(short length), VLAN, MACsec] stackings, where strict scans all extensions and lax asks
    // the innermost one only.
    match (s.ether_payload(), l.ether_payload()) {
        (None, None) => {}
        (Some(p), Some(q)) => {
            c.eq("strict-vs-lax", "ether_payload()", (q.ether_type, q.payload.as_ptr(), q.payload.len()), (p.ether_type, p.payload.as_ptr(), p.payload.len()));
            c.eq("strict-vs-lax", "ether_payload().len_source", q.len_source, p.len_source);
            c.eq("strict-vs-lax", "ether_payload().incomplete", q.incomplete, false);
        }
        (a, b2) => c.fail("strict-vs-lax", "ether_payload()", format!("strict {} / lax {}", if a.is_some() { "Some" } else { "None" }, if b2.is_some() { "Some" } else { "None" })),
    }
    c.eq("strict-vs-lax", "vlan()", format!("{:?}", l.vlan()), format!("{:?}", s.vlan()));
    c.eq("strict-vs-lax", "vlan_ids()", format!("{:?}", l.vlan_ids()), format!("{:?}", s.vlan_ids()));
}

pub fn check(start: Start, b: &[u8], ctx: &mut Ctx) -> Result<(), Failure> {
    let input = || input_json(start, b);
    let entry = lax_entry_name(start);
    let r_lax = refdec::decode(start, b, true);
    if r_lax.policy_ambiguous {
        ctx.class("skipped:ether-type/version-nibble-mismatch (undocumented lax policy)");
        return Ok(());
    }
    ctx.eval(1);
    if let Some(res) = catch(|| slice_lax(start, b)).map_err(|m| Failure::new(format!("C05|{}|panic|{}", entry, panic_location(&m)), "an answer is prescribed for every input", m, input()))? {
        match (&res, r_lax.first_header_failed) {
            (LaxRes::Err(o), true) => {
                if !class_matches(o, &r_lax.faults) {
                    return ctx.fail(Failure::new(format!("C05|{}|wrong-fault-class", entry), "Err names a fault of the first header", format!("crate reports {:?}; faults present: {:?}", o, r_lax.faults), input()));
                }
            }
            (LaxRes::Err(o), false) => {
                return ctx.fail(Failure::new(format!("C05|{}|err-though-first-header-ok", entry), "lax parsing returns Err only when the very first header is undecodable", format!("crate returned Err({:?}) but the reference decodes the first header (layers {})", o, r_lax.layer_names()), input()));
            }
            (LaxRes::Ok(_), true) => {
                return ctx.fail(Failure::new(format!("C05|{}|ok-though-first-header-bad", entry), "lax parsing returns Err when the very first header is undecodable", format!("crate returned Ok but the first header has the fault {:?}", r_lax.faults.first()), input()));
            }
            (LaxRes::Ok(p), false) => {
                // (b) prefix equals the lax reference; stop error on the reference's fault layer
                let mut c = Cmp::new(b);
                cmp_lax_sliced(&mut c, p, &r_lax);
                match (&p.stop_err, r_lax.faults.first()) {
                    (None, None) => {}
                    (Some((e, layer)), Some(f)) => {
                        let o = obs_slice_error(e);
                        if !class_matches(&o, &r_lax.faults) {
                            c.fail("stop_err", "class", format!("stop error {:?} is not among the faults present: {:?}", e, r_lax.faults));
                        }
                        if let Some(m) = exts_variant_mismatch(e, &r_lax) {
                            c.fail("stop_err", "class", m);
                        }
                        let ln = format!("{:?}", layer);
                        if !stop_layers(f.at).contains(&ln.as_str()) {
                            c.fail("stop_err", "layer", format!("stop layer {} but the fault is in {} (acceptable {:?})", ln, f.at, stop_layers(f.at)));
                        }
                    }
                    (Some((e, l)), None) => c.fail("stop_err", "spurious", format!("stop error {:?} on {:?} but the reference finds no fault (layers {})", e, l, r_lax.layer_names())),
                    (None, Some(f)) => c.fail("stop_err", "missing", format!("no stop error but the bytes contain {:?}", f)),
                }
                ctx.eval(c.checks as u64);
                if let Some(m) = c.fails.first() {
                    let detail = c.fails.iter().map(|m| format!("{}.{}: {}", m.layer, m.field, m.detail)).collect::<Vec<_>>().join("; ");
                    let fk = r_lax.faults.first().map(fault_kind).unwrap_or_else(|| "ok".into());
                    return ctx.fail(Failure::new(format!("C05|{}|{}|{}|{}", entry, m.layer, strip_idx(&m.field), fk), format!("lax {}.{} as prescribed", m.layer, m.field), format!("lax reference layers {} faults {:?}: {}", r_lax.layer_names(), r_lax.faults.first(), detail), input()));
                }
                // (a) strict Ok => lax identical
                if let Ok(s) = slice_strict(start, b) {
                    let mut c = Cmp::new(b);
                    metamorphic(&mut c, &s, p);
                    ctx.eval(c.checks as u64);
                    if let Some(m) = c.fails.first() {
                        return ctx.fail(Failure::new(format!("C05|{}|strict-vs-lax|{}", entry, strip_idx(&m.field)), "strict Ok implies the same lax result without stop error / incomplete", format!("{}: {}", m.field, m.detail), input()));
                    }
                }
            }
        }
    }
    // struct family: verdict, stop error and payload of LaxPacketHeaders against the lax reference
    headers_family(start, b, &r_lax, ctx)?;
    // single-layer lax IP decoders on inputs that start with an IP header
    if start == Start::Ip {
        lax_ip_front_ends(b, &r_lax, ctx)?;
    }
    let strict_fails_late = {
        let rs = refdec::decode(start, b, false);
        !rs.ok() && !rs.layers.is_empty()
    };
    let incomplete = r_lax.layers.iter().any(|l| l.pay.incomplete);
    if strict_fails_late || incomplete || r_lax.len_mismatch > 0 {
        let sig = format!("{}|inc{}", shape(&r_lax), incomplete);
        ctx.nontrivial(&sig, || json!({"start": start.name(), "bytes_hex": hex(&b[..b.len().min(120)]), "len": b.len(), "lax_reference": sig}));
    }
    if incomplete {
        ctx.class("lax:incomplete");
    }
    if strict_fails_late {
        ctx.class("strict-fails-behind-first-header");
    }
    Ok(())
}

/// LaxIpSlice / LaxIpv4Slice / LaxIpv6Slice against the lax reference (IP layer only)
fn lax_ip_front_ends(b: &[u8], r: &RefOut, ctx: &mut Ctx) -> Result<(), Failure> {
    use crate::refdec::LK;
    let input = || input_json(Start::Ip, b);
    let p = parts(r);
    let ip_fault = r.faults.first().filter(|f| !matches!(f.at, "udp" | "tcp" | "icmpv4" | "icmpv6"));
    let final_pay = p.ip_exts.last().map(|l| l.pay.clone()).or(p.net.map(|l| l.pay.clone()));
    let mut c = Cmp::new(b);
    let mut entry = "LaxIpSlice::from_slice";
    ctx.eval(3);
    // generic helper for the stop error
    let stop_check = |c: &mut Cmp, stop: Option<ObsErr>| match (stop, ip_fault) {
        (None, None) => {}
        (Some(o), Some(_)) => {
            if !class_matches(&o, &r.faults) {
                c.fail("stop_err", "class", format!("stop error {:?} is not among the faults present: {:?}", o, r.faults));
            }
        }
        (Some(o), None) => c.fail("stop_err", "spurious", format!("stop error {:?} but the reference finds no fault in the IP layer", o)),
        (None, Some(f)) => c.fail("stop_err", "missing", format!("no stop error but the bytes contain {:?}", f)),
    };
    let v6stop = |s: &Option<(err::ipv6_exts::HeaderSliceError, err::Layer)>| {
        s.as_ref().map(|(e, _)| match e {
            err::ipv6_exts::HeaderSliceError::Len(l) => obs_len(l),
            err::ipv6_exts::HeaderSliceError::Content(x) => obs_v6ext(x),
        })
    };
    match (LaxIpSlice::from_slice(b), p.net) {
        (Ok((LaxIpSlice::Ipv4(s), st)), Some(rl)) if rl.kind == LK::Ipv4 => {
            c.ipv4_header(&s.header(), rl);
            c.v4_exts(&s.extensions(), &p.ip_exts);
            c.lax_ip_pay("ipv4", "payload", s.payload(), final_pay.as_ref().unwrap());
            stop_check(&mut c, v6stop(&st));
        }
        (Ok((LaxIpSlice::Ipv6(s), st)), Some(rl)) if rl.kind == LK::Ipv6 => {
            c.ipv6_header(&s.header(), rl);
            c.v6_exts(s.extensions(), rl, &p.ip_exts);
            c.lax_ip_pay("ipv6", "payload", s.payload(), final_pay.as_ref().unwrap());
            stop_check(&mut c, v6stop(&st));
        }
        (Err(_), None) => {}
        (Ok(_), _) => c.fail("net", "kind", "LaxIpSlice decoded an IP header the reference does not see (or of the other version)".into()),
        (Err(e), Some(_)) => c.fail("net", "verdict", format!("Err({:?}) although the base header is decodable", e)),
    }
    if c.fails.is_empty() {
        if let Some(rl) = p.net {
            if rl.kind == LK::Ipv4 {
                entry = "LaxIpv4Slice::from_slice";
                match LaxIpv4Slice::from_slice(b) {
                    Ok((s, st)) => {
                        c.ipv4_header(&s.header(), rl);
                        c.v4_exts(&s.extensions(), &p.ip_exts);
                        c.lax_ip_pay("ipv4", "payload", s.payload(), final_pay.as_ref().unwrap());
                        stop_check(
                            &mut c,
                            st.as_ref().map(|e| match e {
                                err::ip_auth::HeaderSliceError::Len(l) => obs_len(l),
                                err::ip_auth::HeaderSliceError::Content(x) => obs_auth(x),
                            }),
                        );
                    }
                    Err(e) => c.fail("net", "verdict", format!("Err({:?}) although the base header is decodable", e)),
                }
            } else if rl.kind == LK::Ipv6 {
                entry = "LaxIpv6Slice::from_slice";
                match LaxIpv6Slice::from_slice(b) {
                    Ok((s, st)) => {
                        c.ipv6_header(&s.header(), rl);
                        c.v6_exts(s.extensions(), rl, &p.ip_exts);
                        c.lax_ip_pay("ipv6", "payload", s.payload(), final_pay.as_ref().unwrap());
                        stop_check(&mut c, v6stop(&st));
                    }
                    Err(e) => c.fail("net", "verdict", format!("Err({:?}) although the base header is decodable", e)),
                }
            }
        }
    }
    ctx.eval(c.checks as u64);
    if let Some(m) = c.fails.first() {
        let detail = c.fails.iter().map(|m| format!("{}.{}: {}", m.layer, m.field, m.detail)).collect::<Vec<_>>().join("; ");
        let fk = r.faults.first().map(fault_kind).unwrap_or_else(|| "ok".into());
        return ctx.fail(Failure::new(format!("C05|{}|{}|{}|{}", entry, m.layer, strip_idx(&m.field), fk), format!("lax {}.{} as prescribed", m.layer, m.field), format!("lax reference layers {} faults {:?}: {}", r.layer_names(), r.faults.first(), detail), input()));
    }
    Ok(())
}

fn lax_payload_view(p: &LaxPayloadSlice) -> (&'static str, bool) {
    match p {
        LaxPayloadSlice::Empty => ("empty", false),
        LaxPayloadSlice::Ether(e) => ("ether", e.incomplete),
        LaxPayloadSlice::MacsecModified { incomplete, .. } => ("macsec_mod", *incomplete),
        LaxPayloadSlice::Ip(i) => ("ip", i.incomplete),
        LaxPayloadSlice::Udp { incomplete, .. } => ("udp", *incomplete),
        LaxPayloadSlice::Tcp { incomplete, .. } => ("tcp", *incomplete),
        LaxPayloadSlice::Icmpv4 { incomplete, .. } => ("icmpv4", *incomplete),
        LaxPayloadSlice::Icmpv6 { incomplete, .. } => ("icmpv6", *incomplete),
        LaxPayloadSlice::LinuxSll(_) => ("sll", false),
    }
}

fn headers_family(start: Start, b: &[u8], r: &RefOut, ctx: &mut Ctx) -> Result<(), Failure> {
    let input = || input_json(start, b);
    let (entry, res): (&str, Result<LaxPacketHeaders, ObsErr>) = match start {
        Start::Ethernet => ("LaxPacketHeaders::from_ethernet", LaxPacketHeaders::from_ethernet(b).map_err(|e| obs_len(&e))),
        Start::EtherType(e) => ("LaxPacketHeaders::from_ether_type", Ok(LaxPacketHeaders::from_ether_type(EtherType(e), b))),
        Start::Ip => ("LaxPacketHeaders::from_ip", LaxPacketHeaders::from_ip(b).map_err(|e| obs_lax_ip_err(&e))),
        Start::LinuxSll => (
            "LaxPacketHeaders::from_linux_sll",
            LaxPacketHeaders::from_linux_sll(b).map_err(|e| match e {
                err::linux_sll::HeaderSliceError::Len(l) => obs_len(&l),
                err::linux_sll::HeaderSliceError::Content(c) => obs_sll(&c),
            }),
        ),
    };
    ctx.eval(1);
    match (&res, r.first_header_failed) {
        (Err(o), true) => {
            if !class_matches(o, &r.faults) {
                return ctx.fail(Failure::new(format!("C05|{}|wrong-fault-class", entry), "Err names a fault of the first header", format!("crate reports {:?}; faults present: {:?}", o, r.faults), input()));
            }
        }
        (Err(o), false) => return ctx.fail(Failure::new(format!("C05|{}|err-though-first-header-ok", entry), "lax parsing returns Err only when the very first header is undecodable", format!("Err({:?}), reference layers {}", o, r.layer_names()), input())),
        (Ok(_), true) => return ctx.fail(Failure::new(format!("C05|{}|ok-though-first-header-bad", entry), "lax parsing returns Err when the very first header is undecodable", format!("Ok, but {:?}", r.faults.first()), input())),
        (Ok(p), false) => {
            let mut c = Cmp::new(b);
            // The struct family stops extension decoding at a header kind it cannot store (documented
            // exception, C04): only compare when the reference chain fits the struct.
            let fits = crate::props::c04::chain_fits_struct(r);
            match (&p.stop_err, r.faults.first()) {
                (None, None) => {}
                (Some((e, layer)), Some(f)) => {
                    let o = obs_slice_error(e);
                    if !class_matches(&o, &r.faults) && fits {
                        c.fail("stop_err", "class", format!("stop error {:?} is not among the faults present: {:?}", e, r.faults));
                    }
                    if let Some(m) = exts_variant_mismatch(e, r).filter(|_| fits) {
                        c.fail("stop_err", "class", m);
                    }
                    let ln = format!("{:?}", layer);
                    if !stop_layers(f.at).contains(&ln.as_str()) && fits {
                        c.fail("stop_err", "layer", format!("stop layer {} but the fault is in {} (acceptable {:?})", ln, f.at, stop_layers(f.at)));
                    }
                }
                (Some((e, l)), None) => {
                    if fits {
                        c.fail("stop_err", "spurious", format!("stop error {:?} on {:?} but the reference finds no fault", e, l))
                    }
                }
                (None, Some(f)) => {
                    if fits {
                        c.fail("stop_err", "missing", format!("no stop error but the bytes contain {:?}", f))
                    }
                }
            }
            if fits {
                let fp = r.final_pay();
                let (kind, inc) = lax_payload_view(&p.payload);
                let exp_kind = match (r.layers.last().map(|l| l.kind), fp.id) {
                    (Some(refdec::LK::Udp), _) => "udp",
                    (Some(refdec::LK::Tcp), _) => "tcp",
                    (Some(refdec::LK::Icmpv4), _) => "icmpv4",
                    (Some(refdec::LK::Icmpv6), _) => "icmpv6",
                    (Some(refdec::LK::Arp), _) => "empty",
                    (_, PayId::Ether(_)) => "ether",
                    (_, PayId::Ip(_)) => "ip",
                    (_, PayId::MacsecModified) => "macsec_mod",
                    (_, PayId::SllOther(_)) => "sll",
                    (_, PayId::Data) => "data",
                    (_, PayId::Empty) => "empty",
                };
                c.eq("payload", "kind", kind, exp_kind);
                if kind == exp_kind {
                    c.range("payload", "slice", p.payload.slice(), fp.off, fp.len);
                    // the flag of a UDP *transport* payload may also reflect the UDP length field
                    if !(kind == "udp" && inc == (fp.incomplete || fp.udp_promises_more)) {
                        c.eq("payload", "incomplete", inc, fp.incomplete);
                    }
                }
                c.eq("net", "presence", p.net.is_some(), r.layers.iter().any(|l| matches!(l.kind, refdec::LK::Ipv4 | refdec::LK::Ipv6 | refdec::LK::Arp)));
                c.eq("transport", "presence", p.transport.is_some(), r.layers.iter().any(|l| l.kind.is_transport()));
                c.eq("link_exts", "count", p.link_exts.len(), r.layers.iter().filter(|l| l.kind.is_link_ext()).count());
            }
            ctx.eval(c.checks as u64);
            if let Some(m) = c.fails.first() {
                let detail = c.fails.iter().map(|m| format!("{}.{}: {}", m.layer, m.field, m.detail)).collect::<Vec<_>>().join("; ");
                let last = r.layers.last().map(|l| l.kind.name()).unwrap_or("-");
                return ctx.fail(Failure::new(format!("C05|{}|{}|{}|after:{}", entry, m.layer, strip_idx(&m.field), last), format!("lax {}.{} as prescribed", m.layer, m.field), format!("lax reference layers {} faults {:?}: {}", r.layer_names(), r.faults.first(), detail), input()));
            }
        }
    }
    Ok(())
}

impl Property for C05 {
    fn id(&self) -> &'static str {
        "C05"
    }
    fn post(&self, tier: Tier, seed: u64, root: &std::path::Path) -> Result<Value, Failure> {
        if tier == Tier::Thorough {
            crate::fuzzapi::run_fuzz_campaign("C05", root, seed, 400_000, 8)
        } else {
            Ok(Value::Null)
        }
    }
    fn tape_len(&self) -> usize {
        640
    }
    fn cases(&self, tier: Tier) -> u64 {
        tier.pick(6_000_000, 60_000_000)
    }
    fn run_tape(&self, tape: &[u8], ctx: &mut Ctx) -> Result<(), Failure> {
        let mut t = Tape::new(tape);
        let p = gen_packet_big(&mut t);
        if ctx.counting {
            let r = refdec::decode(p.start, &p.bytes, true);
            classify("", &p, &r, ctx);
        }
        check(p.start, &p.bytes, ctx)
    }
    fn replay(&self, input: &Value, ctx: &mut Ctx) -> Result<(), Failure> {
        check(Start::from_json(&input["start"]), &input_bytes(input, "bytes_hex"), ctx)
    }
    fn describe(&self, tape: &[u8]) -> Value {
        crate::props::c03::C03.describe(tape)
    }
    fn rule(&self) -> String {
        "case = tape -> packet grammar (as C03; truncation 30%, length fields above truth ~12%). Three oracle clauses per case: (a) metamorphic: strict Ok => LaxSlicedPacket equal layer by layer, no stop error, nothing incomplete; (b) LaxSlicedPacket against the reference decoder in lax mode: returned prefix (layers, ranges, every field) equals the reference prefix, stop error present iff a fault is present, of a fault class present in the bytes and on the fault's layer, Err iff the first header is undecodable; (c) incomplete <=> a length field promises more than the slice holds, then payload = rest of data with len_source Slice. LaxPacketHeaders (all four start points incl. Linux SLL) is checked for verdict, stop error, payload kind/range/incomplete and layer presence. evaluations = decodes + individual comparisons. Non-trivial = strict reference fails behind the first header, or a payload is incomplete, or a length field differs from the true size; distinct = (start, layer sequence, fault kind, mismatch count, incomplete?)."
            .into()
    }
    fn assumptions(&self) -> Vec<String> {
        vec![
            "reference decoder in lax mode with the documented fall-backs (refdec/mod.rs: length field larger than data => rest of data, incomplete; IPv4 total length below header length => rest of data, not incomplete; lax UDP falls back to the data available)".into(),
            "inputs whose ether type announces one IP version while the version nibble holds the other supported one are skipped (what lax decoding does there is undocumented crate policy; counted in the distribution as skipped)".into(),
            "struct-family results are only compared when the IPv6 extension chain fits the fixed struct (documented C04 exception)".into(),
        ]
    }
}
