//! C04: decoding into header structs agrees with slicing (differential), with the single documented
//! exception of IPv6 extension headers that no longer fit the fixed struct.

use crate::engine::*;
use crate::gen::packet::*;
use crate::props::c03::{classify, input_json, shape, slice_strict};
use crate::refdec::{self, RefOut, LK};
use crate::tape::*;
use etherparse::*;
use serde_json::{json, Value};

pub struct C04;

/// Index (among the extension headers the reference walks, including the one a fault sits on) of the
/// first header that does not fit the struct any more; None = the whole chain fits.
pub fn struct_stop_index(r: &RefOut) -> Option<usize> {
    let mut kinds: Vec<LK> = r.layers.iter().filter(|l| l.kind.is_ip_ext()).map(|l| l.kind).collect();
    // only IPv6 chains have the limitation (IPv4 decodes a single AH in both families)
    if !r.layers.iter().any(|l| l.kind == LK::Ipv6) {
        return None;
    }
    if let Some(f) = r.faults.first() {
        let k = match f.at {
            "dest" => Some(LK::Dest),
            "route" => Some(LK::Route),
            "frag" => Some(LK::Frag),
            "auth" => Some(LK::Auth),
            _ => None, // "hbh" faults: position rule, identical in both families
        };
        if let Some(k) = k {
            kinds.push(k);
        }
    }
    let (mut dest, mut route, mut fdest, mut frag, mut auth) = (false, false, false, false, false);
    for (i, k) in kinds.iter().enumerate() {
        let slot: &mut bool = match k {
            LK::Hbh => continue, // only possible at the start; a later one is an error in both families
            LK::Dest => {
                if route {
                    &mut fdest
                } else {
                    &mut dest
                }
            }
            LK::Route => &mut route,
            LK::Frag => &mut frag,
            LK::Auth => &mut auth,
            _ => continue,
        };
        if *slot {
            return Some(i);
        }
        *slot = true;
    }
    None
}

pub fn chain_fits_struct(r: &RefOut) -> bool {
    struct_stop_index(r).is_none()
}

/// fold the extension headers a slice result iterates over into the struct, by the documented rules
fn fold_v6_exts(e: &Ipv6ExtensionsSlice) -> Ipv6Extensions {
    let mut x = Ipv6Extensions::default();
    for (i, item) in e.clone().into_iter().enumerate() {
        match item {
            Ipv6ExtensionSlice::HopByHop(h) => x.hop_by_hop_options = Some(h.to_header()),
            Ipv6ExtensionSlice::DestinationOptions(h) => {
                if let Some(r) = x.routing.as_mut() {
                    r.final_destination_options = Some(h.to_header());
                } else {
                    x.destination_options = Some(h.to_header());
                }
            }
            Ipv6ExtensionSlice::Routing(h) => x.routing = Some(Ipv6RoutingExtensions { routing: h.to_header(), final_destination_options: None }),
            Ipv6ExtensionSlice::Fragment(h) => x.fragment = Some(h.to_header()),
            Ipv6ExtensionSlice::Authentication(h) => x.auth = Some(h.to_header()),
        }
        if i > 600 {
            break;
        }
    }
    x
}

fn link_header(l: &Option<LinkSlice>) -> Option<LinkHeader> {
    match l {
        Some(LinkSlice::Ethernet2(e)) => Some(LinkHeader::Ethernet2(e.to_header())),
        Some(LinkSlice::LinuxSll(e)) => Some(LinkHeader::LinuxSll(e.to_header())),
        _ => None,
    }
}

fn off(base: &[u8], s: &[u8]) -> (isize, usize) {
    if s.is_empty() {
        (-1, 0)
    } else {
        (s.as_ptr() as isize - base.as_ptr() as isize, s.len())
    }
}

struct Diff {
    what: String,
    detail: String,
}

fn strict_pair<'a>(start: Start, b: &'a [u8]) -> Option<(&'static str, Result<PacketHeaders<'a>, err::packet::SliceError>)> {
    Some(match start {
        Start::Ethernet => ("PacketHeaders::from_ethernet_slice", PacketHeaders::from_ethernet_slice(b)),
        Start::EtherType(e) => ("PacketHeaders::from_ether_type", PacketHeaders::from_ether_type(EtherType(e), b)),
        Start::Ip => ("PacketHeaders::from_ip_slice", PacketHeaders::from_ip_slice(b)),
        Start::LinuxSll => return None,
    })
}

/// payload (kind, range) of a strict slice result, as PacketHeaders defines its `payload`
fn sliced_payload_view<'a>(b: &[u8], s: &SlicedPacket<'a>) -> (String, (isize, usize)) {
    if let Some(t) = &s.transport {
        return match t {
            TransportSlice::Udp(u) => ("Udp".into(), off(b, u.payload())),
            TransportSlice::Tcp(u) => ("Tcp".into(), off(b, u.payload())),
            TransportSlice::Icmpv4(u) => ("Icmpv4".into(), off(b, u.payload())),
            TransportSlice::Icmpv6(u) => ("Icmpv6".into(), off(b, u.payload())),
        };
    }
    match &s.net {
        Some(NetSlice::Ipv4(v)) => return (format!("Ip({},frag={})", v.payload().ip_number.0, v.payload().fragmented), off(b, v.payload().payload)),
        Some(NetSlice::Ipv6(v)) => return (format!("Ip({},frag={})", v.payload().ip_number.0, v.payload().fragmented), off(b, v.payload().payload)),
        Some(NetSlice::Arp(_)) => return ("Empty".into(), (-1, 0)),
        None => {}
    }
    if let Some(LinkExtSlice::Macsec(m)) = s.link_exts.last() {
        if let MacsecPayloadSlice::Modified(p) = &m.payload {
            return ("MacsecMod".into(), off(b, p));
        }
    }
    match s.ether_payload() {
        Some(e) => (format!("Ether({:#06x})", e.ether_type.0), off(b, e.payload)),
        None => ("none".into(), (-1, 0)),
    }
}

fn headers_payload_view(b: &[u8], p: &PayloadSlice) -> (String, (isize, usize)) {
    match p {
        PayloadSlice::Empty => ("Empty".into(), (-1, 0)),
        PayloadSlice::Ether(e) => (format!("Ether({:#06x})", e.ether_type.0), off(b, e.payload)),
        PayloadSlice::MacsecMod(m) => ("MacsecMod".into(), off(b, m)),
        PayloadSlice::Ip(i) => (format!("Ip({},frag={})", i.ip_number.0, i.fragmented), off(b, i.payload)),
        PayloadSlice::Udp(u) => ("Udp".into(), off(b, u)),
        PayloadSlice::Tcp(u) => ("Tcp".into(), off(b, u)),
        PayloadSlice::Icmpv4(u) => ("Icmpv4".into(), off(b, u)),
        PayloadSlice::Icmpv6(u) => ("Icmpv6".into(), off(b, u)),
    }
}

fn net_from_slice(n: &Option<NetSlice>) -> Option<NetHeaders> {
    match n {
        None => None,
        Some(NetSlice::Ipv4(v)) => Some(NetHeaders::Ipv4(v.header().to_header(), Ipv4Extensions { auth: v.extensions().auth.map(|a| a.to_header()) })),
        Some(NetSlice::Ipv6(v)) => Some(NetHeaders::Ipv6(v.header().to_header(), fold_v6_exts(v.extensions()))),
        Some(NetSlice::Arp(a)) => Some(NetHeaders::Arp(a.to_packet())),
    }
}

fn transport_from_slice(t: &Option<TransportSlice>) -> Option<TransportHeader> {
    match t {
        None => None,
        Some(TransportSlice::Udp(u)) => Some(TransportHeader::Udp(u.to_header())),
        Some(TransportSlice::Tcp(u)) => Some(TransportHeader::Tcp(u.to_header())),
        Some(TransportSlice::Icmpv4(u)) => Some(TransportHeader::Icmpv4(u.header())),
        Some(TransportSlice::Icmpv6(u)) => Some(TransportHeader::Icmpv6(u.header())),
    }
}

/// expected struct-family view in the exception case, from the reference
struct ExceptionView {
    stored_exts: usize,
    payload_off: usize,
    payload_len: usize,
    ip_number: u8,
    fragmented: bool,
}

fn exception_view(b: &[u8], r: &RefOut, stop: usize) -> Option<ExceptionView> {
    let ip_idx = r.layers.iter().position(|l| l.kind == LK::Ipv6)?;
    let ip = &r.layers[ip_idx];
    let exts: Vec<&refdec::RLayer> = r.layers.iter().filter(|l| l.kind.is_ip_ext()).collect();
    // offset where the non-fitting header starts and its number
    let (o, num) = if stop < exts.len() {
        let l = exts[stop];
        let n = match l.kind {
            LK::Dest => 60,
            LK::Route => 43,
            LK::Frag => 44,
            LK::Auth => 51,
            _ => 0,
        };
        (l.off, n)
    } else {
        let f = r.faults.first()?;
        let n = match f.at {
            "dest" => 60,
            "route" => 43,
            "frag" => 44,
            "auth" => 51,
            _ => return None,
        };
        (f.off, n)
    };
    let end = ip.pay.off + ip.pay.len;
    let fragmented = exts[..stop.min(exts.len())].iter().any(|l| {
        l.kind == LK::Frag && {
            let f = u16::from_be_bytes([b[l.off + 2], b[l.off + 3]]);
            (f >> 3) != 0 || f & 1 != 0
        }
    });
    Some(ExceptionView { stored_exts: stop, payload_off: o, payload_len: end - o, ip_number: num, fragmented })
}

fn count_v6_exts(e: &Ipv6Extensions) -> usize {
    e.hop_by_hop_options.is_some() as usize
        + e.destination_options.is_some() as usize
        + e.routing.as_ref().map(|r| 1 + r.final_destination_options.is_some() as usize).unwrap_or(0)
        + e.fragment.is_some() as usize
        + e.auth.is_some() as usize
}

/// The enum wrappers of the struct results offer a second door to each header (`udp()`, `mut_tcp()`,
/// `ipv4_ref()`, `is_arp()`, `header_len()` ...): documented to return the header exactly when the enum
/// holds that variant, and its serialised length. Returns the first disagreement.
fn helper_views(link: &Option<LinkHeader>, exts: &[LinkExtHeader], net: &Option<NetHeaders>, tr: &Option<TransportHeader>) -> Option<String> {
    if let Some(l) = link {
        let mut m = l.clone();
        let (e, s) = (l.clone().ethernet2(), l.clone().linux_sll());
        let (me, ms) = (m.mut_ethernet2().map(|x| x.clone()), m.mut_linux_sll().map(|x| x.clone()));
        let mut w = vec![];
        let _ = l.write(&mut w);
        let ok = match l {
            LinkHeader::Ethernet2(h) => e.as_ref() == Some(h) && me.as_ref() == Some(h) && s.is_none() && ms.is_none() && l.header_len() == 14,
            LinkHeader::LinuxSll(h) => s.as_ref() == Some(h) && ms.as_ref() == Some(h) && e.is_none() && me.is_none() && l.header_len() == 16,
        };
        if !ok || w.len() != l.header_len() {
            return Some(format!("LinkHeader helpers disagree with {:?}: ethernet2={:?} linux_sll={:?} header_len={} written={}", l, e, s, l.header_len(), w.len()));
        }
    }
    for e in exts {
        let want = match e {
            LinkExtHeader::Vlan(_) => 4,
            LinkExtHeader::Macsec(m) => m.to_bytes().len(),
        };
        if e.header_len() != want {
            return Some(format!("LinkExtHeader::header_len {} but the header serialises to {} bytes: {:?}", e.header_len(), want, e));
        }
    }
    if let Some(n) = net {
        let (v4, v6, arp) = (n.ipv4_ref().is_some(), n.ipv6_ref().is_some(), n.arp_ref().is_some());
        let (want, len) = match n {
            NetHeaders::Ipv4(h, x) => ((true, false, false), h.header_len() + x.header_len()),
            NetHeaders::Ipv6(h, x) => ((false, true, false), h.header_len() + x.header_len()),
            NetHeaders::Arp(a) => ((false, false, true), a.packet_len()),
        };
        let same_refs = match n {
            NetHeaders::Ipv4(h, x) => n.ipv4_ref() == Some((h, x)),
            NetHeaders::Ipv6(h, x) => n.ipv6_ref() == Some((h, x)),
            NetHeaders::Arp(a) => n.arp_ref() == Some(a),
        };
        if (v4, v6, arp) != want || (n.is_ipv4(), n.is_ipv6(), n.is_arp()) != want || n.is_ip() != (want.0 || want.1) || !same_refs || n.header_len() != len {
            return Some(format!("NetHeaders helpers disagree with the variant: refs {:?} is_* {:?} is_ip {} header_len {} (parts {}) for {:?}", (v4, v6, arp), (n.is_ipv4(), n.is_ipv6(), n.is_arp()), n.is_ip(), n.header_len(), len, n));
        }
    }
    if let Some(t) = tr {
        let mut m = t.clone();
        let by_val = (t.clone().udp().is_some(), t.clone().tcp().is_some(), t.clone().icmpv4().is_some(), t.clone().icmpv6().is_some());
        let by_mut = (m.mut_udp().is_some(), m.mut_tcp().is_some(), m.mut_icmpv4().is_some(), m.mut_icmpv6().is_some());
        let mut w = vec![];
        let _ = t.write(&mut w);
        let (want, same) = match t {
            TransportHeader::Udp(h) => ((true, false, false, false), t.clone().udp().as_ref() == Some(h) && m.mut_udp().map(|x| &*x) == Some(h)),
            TransportHeader::Tcp(h) => ((false, true, false, false), t.clone().tcp().as_ref() == Some(h) && m.mut_tcp().map(|x| &*x) == Some(h)),
            TransportHeader::Icmpv4(h) => ((false, false, true, false), t.clone().icmpv4().as_ref() == Some(h) && m.mut_icmpv4().map(|x| &*x) == Some(h)),
            TransportHeader::Icmpv6(h) => ((false, false, false, true), t.clone().icmpv6().as_ref() == Some(h) && m.mut_icmpv6().map(|x| &*x) == Some(h)),
        };
        if by_val != want || by_mut != want || !same || w.len() != t.header_len() {
            return Some(format!("TransportHeader helpers disagree with the variant: by value {:?}, by mut {:?}, same header {}, header_len {} written {} for {:?}", by_val, by_mut, same, t.header_len(), w.len(), t));
        }
    }
    None
}

fn strict_check(start: Start, b: &[u8], r: &RefOut, ctx: &mut Ctx) -> Result<(), Failure> {
    let Some((entry, h)) = strict_pair(start, b) else { return Ok(()) };
    let s = slice_strict(start, b);
    ctx.eval(1);
    let input = || input_json(start, b);
    let stop = struct_stop_index(r);
    let mut diffs: Vec<Diff> = vec![];
    if let Ok(p) = &h {
        if let Some(d) = helper_views(&p.link, &p.link_exts, &p.net, &p.transport) {
            diffs.push(Diff { what: "helper-view".into(), detail: d });
        }
    }
    if let Some(stop) = stop {
        ctx.class("struct-exception");
        // documented exception: struct decoding ends at the header that does not fit
        let Some(ev) = exception_view(b, r, stop) else { return Ok(()) };
        match &h {
            Ok(p) => {
                match &p.net {
                    Some(NetHeaders::Ipv6(_, e)) => {
                        if count_v6_exts(e) != ev.stored_exts {
                            diffs.push(Diff { what: "exception.stored-exts".into(), detail: format!("struct stores {} extension headers, {} fit before the duplicate", count_v6_exts(e), ev.stored_exts) });
                        }
                    }
                    _ => diffs.push(Diff { what: "exception.net".into(), detail: "net is not IPv6".into() }),
                }
                if p.transport.is_some() {
                    diffs.push(Diff { what: "exception.transport".into(), detail: "a transport header was decoded behind a header that does not fit the struct".into() });
                }
                let exp = (format!("Ip({},frag={})", ev.ip_number, ev.fragmented), if ev.payload_len == 0 { (-1, 0) } else { (ev.payload_off as isize, ev.payload_len) });
                let got = headers_payload_view(b, &p.payload);
                if got != exp {
                    diffs.push(Diff { what: "exception.payload".into(), detail: format!("payload {:?}, expected the non-fitting header as payload {:?}", got, exp) });
                }
            }
            Err(e) => {
                // struct decoding may only fail for a fault in front of the non-fitting header; the
                // reference places the first fault behind it, so Err is a disagreement
                diffs.push(Diff { what: "exception.err".into(), detail: format!("struct decoding failed with {:?} although it must end at the header that does not fit", e) });
            }
        }
    } else {
        match (&h, &s) {
            (Ok(p), Ok(q)) => {
                if p.link != link_header(&q.link) {
                    diffs.push(Diff { what: "link".into(), detail: format!("{:?} vs slicing {:?}", p.link, link_header(&q.link)) });
                }
                let qe: Vec<LinkExtHeader> = q.link_exts.iter().map(|e| e.to_header()).collect();
                if p.link_exts.as_slice() != qe.as_slice() {
                    diffs.push(Diff { what: "link_exts".into(), detail: format!("{:?} vs slicing {:?}", p.link_exts, qe) });
                }
                {
                    // vlan() / vlan_ids(): the first two VLAN headers / all VLAN ids, through both families
                    let pv = p.vlan();
                    let qv = q.vlan().map(|v| match v {
                        VlanSlice::SingleVlan(s) => VlanHeader::Single(s.to_header()),
                        VlanSlice::DoubleVlan(d) => VlanHeader::Double(DoubleVlanHeader { outer: d.outer.to_header(), inner: d.inner.to_header() }),
                    });
                    let want_ids: Vec<u16> = qe.iter().filter_map(|e| if let LinkExtHeader::Vlan(v) = e { Some(v.vlan_id.value()) } else { None }).collect();
                    let want_v = {
                        let mut vs = qe.iter().filter_map(|e| if let LinkExtHeader::Vlan(v) = e { Some(v.clone()) } else { None });
                        match (vs.next(), vs.next()) {
                            (Some(a), Some(b2)) => Some(VlanHeader::Double(DoubleVlanHeader { outer: a, inner: b2 })),
                            (Some(a), None) => Some(VlanHeader::Single(a)),
                            _ => None,
                        }
                    };
                    let pids: Vec<u16> = p.vlan_ids().iter().map(|v| v.value()).collect();
                    let qids: Vec<u16> = q.vlan_ids().iter().map(|v| v.value()).collect();
                    if pv != qv || pv != want_v || pids != qids || pids != want_ids {
                        diffs.push(Diff { what: "vlan-helpers".into(), detail: format!("vlan() {:?} vs slicing {:?} (headers say {:?}); vlan_ids() {:?} vs slicing {:?} (headers say {:?})", pv, qv, want_v, pids, qids, want_ids) });
                    }
                }
                let qn = net_from_slice(&q.net);
                if p.net != qn {
                    diffs.push(Diff { what: "net".into(), detail: format!("{:?} vs slicing {:?}", p.net, qn) });
                }
                let qt = transport_from_slice(&q.transport);
                if p.transport != qt {
                    diffs.push(Diff { what: "transport".into(), detail: format!("{:?} vs slicing {:?}", p.transport, qt) });
                }
                let (a, bq) = (headers_payload_view(b, &p.payload), sliced_payload_view(b, q));
                if a != bq {
                    diffs.push(Diff { what: "payload".into(), detail: format!("{:?} vs slicing {:?}", a, bq) });
                }
            }
            (Err(_), Err(_)) => {}
            (Ok(_), Err(e)) => diffs.push(Diff { what: "verdict".into(), detail: format!("struct decoding accepts, slicing rejects with {:?}", e) }),
            (Err(e), Ok(_)) => diffs.push(Diff { what: "verdict".into(), detail: format!("struct decoding rejects with {:?}, slicing accepts", e) }),
        }
    }
    if let Some(d) = diffs.first() {
        let last = r.layers.last().map(|l| l.kind.name()).unwrap_or("-");
        let fk = r.faults.first().map(crate::props::c03::fault_kind).unwrap_or_else(|| "ok".into());
        let detail = diffs.iter().map(|d| format!("{}: {}", d.what, d.detail)).collect::<Vec<_>>().join("; ");
        return ctx.fail(Failure::new(format!("C04|{}|{}|last:{}|{}", entry, d.what, last, fk), format!("struct decoding agrees with slicing: {}", d.what), detail.chars().take(1500).collect::<String>(), input()));
    }
    Ok(())
}

fn lax_payload_view(b: &[u8], p: &LaxPayloadSlice) -> (String, (isize, usize), bool) {
    match p {
        LaxPayloadSlice::Empty => ("Empty".into(), (-1, 0), false),
        LaxPayloadSlice::Ether(e) => (format!("Ether({:#06x})", e.ether_type.0), off(b, e.payload), e.incomplete),
        LaxPayloadSlice::MacsecModified { payload, incomplete } => ("MacsecMod".into(), off(b, payload), *incomplete),
        LaxPayloadSlice::Ip(i) => (format!("Ip({},frag={})", i.ip_number.0, i.fragmented), off(b, i.payload), i.incomplete),
        LaxPayloadSlice::Udp { payload, incomplete } => ("Udp".into(), off(b, payload), *incomplete),
        LaxPayloadSlice::Tcp { payload, incomplete } => ("Tcp".into(), off(b, payload), *incomplete),
        LaxPayloadSlice::Icmpv4 { payload, incomplete } => ("Icmpv4".into(), off(b, payload), *incomplete),
        LaxPayloadSlice::Icmpv6 { payload, incomplete } => ("Icmpv6".into(), off(b, payload), *incomplete),
        LaxPayloadSlice::LinuxSll(s) => ("Sll".into(), off(b, s.payload), false),
    }
}

fn lax_sliced_payload_view(b: &[u8], s: &LaxSlicedPacket) -> (String, (isize, usize), bool) {
    let ip_inc = s.ip_payload().map(|p| p.incomplete).unwrap_or(false);
    if let Some(t) = &s.transport {
        return match t {
            TransportSlice::Udp(u) => ("Udp".into(), off(b, u.payload()), ip_inc),
            TransportSlice::Tcp(u) => ("Tcp".into(), off(b, u.payload()), ip_inc),
            TransportSlice::Icmpv4(u) => ("Icmpv4".into(), off(b, u.payload()), ip_inc),
            TransportSlice::Icmpv6(u) => ("Icmpv6".into(), off(b, u.payload()), ip_inc),
        };
    }
    match &s.net {
        Some(LaxNetSlice::Ipv4(v)) => return (format!("Ip({},frag={})", v.payload().ip_number.0, v.payload().fragmented), off(b, v.payload().payload), v.payload().incomplete),
        Some(LaxNetSlice::Ipv6(v)) => return (format!("Ip({},frag={})", v.payload().ip_number.0, v.payload().fragmented), off(b, v.payload().payload), v.payload().incomplete),
        Some(LaxNetSlice::Arp(_)) => return ("Empty".into(), (-1, 0), false),
        None => {}
    }
    if let Some(LaxLinkExtSlice::Macsec(m)) = s.link_exts.last() {
        if let LaxMacsecPayloadSlice::Modified { payload, incomplete } = &m.payload {
            return ("MacsecMod".into(), off(b, payload), *incomplete);
        }
    }
    match s.ether_payload() {
        Some(e) => (format!("Ether({:#06x})", e.ether_type.0), off(b, e.payload), e.incomplete),
        None => ("none".into(), (-1, 0), false),
    }
}

fn lax_net_from_slice(n: &Option<LaxNetSlice>) -> Option<NetHeaders> {
    match n {
        None => None,
        Some(LaxNetSlice::Ipv4(v)) => Some(NetHeaders::Ipv4(v.header().to_header(), Ipv4Extensions { auth: v.extensions().auth.map(|a| a.to_header()) })),
        Some(LaxNetSlice::Ipv6(v)) => Some(NetHeaders::Ipv6(v.header().to_header(), fold_v6_exts(v.extensions()))),
        Some(LaxNetSlice::Arp(a)) => Some(NetHeaders::Arp(a.to_packet())),
    }
}

fn lax_check(start: Start, b: &[u8], rl: &RefOut, ctx: &mut Ctx) -> Result<(), Failure> {
    let (entry, h, s): (&str, Option<LaxPacketHeaders>, Option<LaxSlicedPacket>) = match start {
        Start::Ethernet => ("LaxPacketHeaders::from_ethernet", LaxPacketHeaders::from_ethernet(b).ok(), LaxSlicedPacket::from_ethernet(b).ok()),
        Start::EtherType(e) => ("LaxPacketHeaders::from_ether_type", Some(LaxPacketHeaders::from_ether_type(EtherType(e), b)), Some(LaxSlicedPacket::from_ether_type(EtherType(e), b))),
        Start::Ip => ("LaxPacketHeaders::from_ip", LaxPacketHeaders::from_ip(b).ok(), LaxSlicedPacket::from_ip(b).ok()),
        Start::LinuxSll => return Ok(()),
    };
    ctx.eval(1);
    let input = || input_json(start, b);
    let mut diffs: Vec<Diff> = vec![];
    if let Some(p) = &h {
        if let Some(d) = helper_views(&p.link, &p.link_exts, &p.net, &p.transport) {
            diffs.push(Diff { what: "helper-view".into(), detail: d });
        }
    }
    if struct_stop_index(rl).is_some() {
        // exception: checked in strict mode against the reference; here only the lax flavour of "ends at
        // that header": no transport, no stop error caused by anything behind it
        if let Some(p) = &h {
            if p.transport.is_some() {
                diffs.push(Diff { what: "exception.transport".into(), detail: "a transport header was decoded behind a header that does not fit the struct".into() });
            }
        }
    } else {
        match (&h, &s) {
            (Some(p), Some(q)) => {
                if p.link != link_header(&q.link) {
                    diffs.push(Diff { what: "link".into(), detail: format!("{:?} vs slicing {:?}", p.link, link_header(&q.link)) });
                }
                let qe: Vec<LinkExtHeader> = q.link_exts.iter().map(|e| e.to_header()).collect();
                if p.link_exts.as_slice() != qe.as_slice() {
                    diffs.push(Diff { what: "link_exts".into(), detail: format!("{:?} vs slicing {:?}", p.link_exts, qe) });
                }
                {
                    // vlan() / vlan_ids(): the first two VLAN headers / all VLAN ids, through both families
                    let pv = p.vlan();
                    let qv = q.vlan().map(|v| match v {
                        VlanSlice::SingleVlan(s) => VlanHeader::Single(s.to_header()),
                        VlanSlice::DoubleVlan(d) => VlanHeader::Double(DoubleVlanHeader { outer: d.outer.to_header(), inner: d.inner.to_header() }),
                    });
                    let want_ids: Vec<u16> = qe.iter().filter_map(|e| if let LinkExtHeader::Vlan(v) = e { Some(v.vlan_id.value()) } else { None }).collect();
                    let want_v = {
                        let mut vs = qe.iter().filter_map(|e| if let LinkExtHeader::Vlan(v) = e { Some(v.clone()) } else { None });
                        match (vs.next(), vs.next()) {
                            (Some(a), Some(b2)) => Some(VlanHeader::Double(DoubleVlanHeader { outer: a, inner: b2 })),
                            (Some(a), None) => Some(VlanHeader::Single(a)),
                            _ => None,
                        }
                    };
                    let pids: Vec<u16> = p.vlan_ids().iter().map(|v| v.value()).collect();
                    let qids: Vec<u16> = q.vlan_ids().iter().map(|v| v.value()).collect();
                    if pv != qv || pv != want_v || pids != qids || pids != want_ids {
                        diffs.push(Diff { what: "vlan-helpers".into(), detail: format!("vlan() {:?} vs slicing {:?} (headers say {:?}); vlan_ids() {:?} vs slicing {:?} (headers say {:?})", pv, qv, want_v, pids, qids, want_ids) });
                    }
                }
                let qn = lax_net_from_slice(&q.net);
                if p.net != qn {
                    diffs.push(Diff { what: "net".into(), detail: format!("{:?} vs slicing {:?}", p.net, qn) });
                }
                let qt = transport_from_slice(&q.transport);
                if p.transport != qt {
                    diffs.push(Diff { what: "transport".into(), detail: format!("{:?} vs slicing {:?}", p.transport, qt) });
                }
                let (a, mut bq) = (lax_payload_view(b, &p.payload), lax_sliced_payload_view(b, q));
                // the property speaks of the payload's byte range; the harness derives the slicing side's
                // flag from the IP layer. For a UDP payload the struct family may also let the UDP length
                // field count ("length in UDP or IP header", docs of LaxPayloadSlice::Udp): either flag
                if let Some(TransportSlice::Udp(u)) = &q.transport {
                    if a.2 != bq.2 && a.2 == (bq.2 || usize::from(u.length()) > u.slice().len()) {
                        bq.2 = a.2;
                    }
                }
                if a != bq {
                    diffs.push(Diff { what: "payload".into(), detail: format!("{:?} vs slicing {:?}", a, bq) });
                }
                let (x, y) = (p.stop_err.as_ref().map(|e| e.1), q.stop_err.as_ref().map(|e| e.1));
                let same_layer = match (x, y) {
                    (None, None) => true,
                    (Some(a), Some(c)) => {
                        // the two families name some stop layers differently (MacsecHeader / MacsecPacket)
                        a == c || crate::props::c05::stop_layers(rl.faults.first().map(|f| f.at).unwrap_or("")).contains(&format!("{:?}", a).as_str()) && crate::props::c05::stop_layers(rl.faults.first().map(|f| f.at).unwrap_or("")).contains(&format!("{:?}", c).as_str())
                    }
                    _ => false,
                };
                if !same_layer {
                    diffs.push(Diff { what: "stop_err".into(), detail: format!("{:?} vs slicing {:?}", p.stop_err, q.stop_err) });
                }
            }
            (None, None) => {}
            (x, _) => diffs.push(Diff { what: "verdict".into(), detail: format!("struct decoding returns {}, slicing the opposite", if x.is_some() { "Ok" } else { "Err" }) }),
        }
    }
    if let Some(d) = diffs.first() {
        let last = rl.layers.last().map(|l| l.kind.name()).unwrap_or("-");
        let fk = rl.faults.first().map(crate::props::c03::fault_kind).unwrap_or_else(|| "ok".into());
        let detail = diffs.iter().map(|d| format!("{}: {}", d.what, d.detail)).collect::<Vec<_>>().join("; ");
        return ctx.fail(Failure::new(format!("C04|{}|{}|last:{}|{}", entry, d.what, last, fk), format!("lax struct decoding agrees with lax slicing: {}", d.what), detail.chars().take(1500).collect::<String>(), input()));
    }
    Ok(())
}

pub fn check(start: Start, b: &[u8], ctx: &mut Ctx) -> Result<(), Failure> {
    let r = refdec::decode(start, b, false);
    let rl = refdec::decode(start, b, true);
    let res = catch(|| {
        strict_check(start, b, &r, ctx)?;
        lax_check(start, b, &rl, ctx)
    });
    match res {
        Ok(x) => x?,
        Err(m) => return ctx.fail(Failure::new(format!("C04|panic|{}", panic_location(&m)), "an answer is prescribed for every input", m, input_json(start, b))),
    }
    let transport = r.layers.iter().any(|l| l.kind.is_transport());
    let in_exts = r.faults.first().map(|f| matches!(f.at, "hbh" | "dest" | "route" | "frag" | "auth")).unwrap_or(false);
    if transport || in_exts || r.len_mismatch > 0 || struct_stop_index(&r).is_some() {
        let sig = format!("{}|x{}", shape(&r), struct_stop_index(&r).is_some());
        ctx.nontrivial(&sig, || json!({"start": start.name(), "bytes_hex": hex(&b[..b.len().min(120)]), "len": b.len(), "reference": sig}));
    }
    Ok(())
}

impl Property for C04 {
    fn id(&self) -> &'static str {
        "C04"
    }
    fn post(&self, tier: Tier, seed: u64, root: &std::path::Path) -> Result<Value, Failure> {
        if tier == Tier::Thorough {
            crate::fuzzapi::run_fuzz_campaign("C04", root, seed, 400_000, 8)
        } else {
            Ok(Value::Null)
        }
    }
    fn tape_len(&self) -> usize {
        640
    }
    fn cases(&self, tier: Tier) -> u64 {
        tier.pick(8_000_000, 60_000_000)
    }
    fn run_tape(&self, tape: &[u8], ctx: &mut Ctx) -> Result<(), Failure> {
        let mut t = Tape::new(tape);
        let p = gen_packet_big(&mut t);
        if ctx.counting {
            let r = refdec::decode(p.start, &p.bytes, false);
            classify("", &p, &r, ctx);
        }
        check(p.start, &p.bytes, ctx)
    }
    fn replay(&self, input: &Value, ctx: &mut Ctx) -> Result<(), Failure> {
        check(Start::from_json(&input["start"]), &input_bytes(input, "bytes_hex"), ctx)
    }
    fn describe(&self, tape: &[u8]) -> Value {
        crate::props::c03::C03.describe(tape)
    }
    fn rule(&self) -> String {
        "case = tape -> packet grammar (as C03). Differential oracle: PacketHeaders::{from_ethernet_slice, from_ether_type, from_ip_slice} vs SlicedPacket::{from_ethernet, from_ether_type, from_ip}, and LaxPacketHeaders vs LaxSlicedPacket: same verdict; link, link_exts, net, transport equal to the slice result converted header by header (IPv6 extension chains folded from the slice *iterator* under the documented struct rules, not via Ipv6Extensions::from_slice); remaining payload of the same kind covering the same (offset,len); lax: same stop-error presence/layer and incomplete flag. Every struct result is also read through the second door of its enum wrappers (LinkHeader/NetHeaders/TransportHeader/LinkExtHeader: by-value, by-mut and by-ref helper accessors, is_*, header_len, write): they must hand out exactly the header of the variant held and its serialised length. The documented exception is computed from the reference decoding: when the chain contains a header whose struct slot is already taken, struct decoding must end exactly there (that header is the payload, no transport header, fragmented reflects only the headers in front) and may be Ok where slicing fails behind it. evaluations = compared pairs. Non-trivial = transport layer reached, or fault in the extension chain, or a length field differs from the true size, or the exception applies; distinct = (start, layer sequence, fault kind, mismatch count, exception?)."
            .into()
    }
    fn assumptions(&self) -> Vec<String> {
        vec![
            "the exception predicate uses the reference decoder's extension chain (harness/src/refdec)".into(),
            "lax stop layers of the two families are considered equal if both are acceptable names for the reference's fault layer (e.g. MacsecHeader / MacsecPacket)".into(),
            "there is no strict PacketHeaders entry point for Linux SLL; LaxPacketHeaders::from_linux_sll has no slicing counterpart (covered by C05)".into(),
        ]
    }
}
