//! C13 — TCP options encode and decode faithfully; iteration is bounded.
//!
//! Oracle: an independent model of the TCP option wire format written from RFC 9293 §3.1 (EOL, NOP,
//! MSS), RFC 7323 (window scale, timestamps) and RFC 2018 (SACK permitted, SACK). The model has its
//! own option type (`Opt`, a SACK option simply owns 1..=4 blocks), its own encoder (`Opt::emit`) and
//! its own tokenizer (`tokenize`) which, for a malformed option, computes the *set* of error
//! statements that are true of the bytes.
use crate::engine::*;
use crate::tape::*;
use etherparse::{
    TcpHeader, TcpHeaderSlice, TcpOptionElement as El, TcpOptionReadError as RErr, TcpOptionWriteError as WErr, TcpOptions, TcpOptionsIterator,
    TcpSlice,
};
use serde_json::{json, Value};

pub struct C13;

// ------------------------------------------------------------------------------------------------
// reference model

/// One TCP option as the RFCs define it on the wire.
#[derive(Clone, Debug, PartialEq, Eq)]
enum Opt {
    /// kind 1, a single byte
    Nop,
    /// kind 2, length 4 (RFC 9293 §3.1)
    Mss(u16),
    /// kind 3, length 3 (RFC 7323 §2.2)
    Wscale(u8),
    /// kind 4, length 2 (RFC 2018 §2)
    SackPermitted,
    /// kind 5, length 2 + 8 n for n = 1..=4 blocks (RFC 2018 §3)
    Sack(Vec<(u32, u32)>),
    /// kind 8, length 10 (RFC 7323 §3.2): TSval, TSecr
    Timestamps(u32, u32),
}

fn put32(out: &mut Vec<u8>, v: u32) {
    out.push((v >> 24) as u8);
    out.push((v >> 16) as u8);
    out.push((v >> 8) as u8);
    out.push(v as u8);
}

fn get32(b: &[u8]) -> u32 {
    ((b[0] as u32) << 24) | ((b[1] as u32) << 16) | ((b[2] as u32) << 8) | (b[3] as u32)
}

impl Opt {
    fn emit(&self, out: &mut Vec<u8>) {
        match self {
            Opt::Nop => out.push(1),
            Opt::Mss(v) => out.extend_from_slice(&[2, 4, (*v >> 8) as u8, *v as u8]),
            Opt::Wscale(s) => out.extend_from_slice(&[3, 3, *s]),
            Opt::SackPermitted => out.extend_from_slice(&[4, 2]),
            Opt::Sack(blocks) => {
                out.push(5);
                out.push((2 + 8 * blocks.len()) as u8);
                for (left, right) in blocks {
                    put32(out, *left);
                    put32(out, *right);
                }
            }
            Opt::Timestamps(val, ecr) => {
                out.push(8);
                out.push(10);
                put32(out, *val);
                put32(out, *ecr);
            }
        }
    }

    fn size(&self) -> usize {
        match self {
            Opt::Nop => 1,
            Opt::Mss(_) => 4,
            Opt::Wscale(_) => 3,
            Opt::SackPermitted => 2,
            Opt::Sack(b) => 2 + 8 * b.len(),
            Opt::Timestamps(..) => 10,
        }
    }

    fn sym(&self) -> &'static str {
        match self {
            Opt::Nop => "N",
            Opt::Mss(_) => "M",
            Opt::Wscale(_) => "W",
            Opt::SackPermitted => "P",
            Opt::Sack(b) => ["S0", "S1", "S2", "S3", "S4"][b.len().min(4)],
            Opt::Timestamps(..) => "T",
        }
    }

    /// The crate value this option must decode to (no gaps: blocks fill the array from the front).
    fn to_crate(&self) -> El {
        match self {
            Opt::Nop => El::Noop,
            Opt::Mss(v) => El::MaximumSegmentSize(*v),
            Opt::Wscale(s) => El::WindowScale(*s),
            Opt::SackPermitted => El::SelectiveAcknowledgementPermitted,
            Opt::Sack(b) => El::SelectiveAcknowledgement(b[0], [b.get(1).copied(), b.get(2).copied(), b.get(3).copied()]),
            Opt::Timestamps(a, b) => El::Timestamp(*a, *b),
        }
    }
}

/// Model of a crate element. A SACK array with a gap (`None` before `Some`) has no wire form; the
/// blocks that are present are taken in order (compaction) — stated deviation.
fn model_of(e: &El) -> Opt {
    match e {
        El::Noop => Opt::Nop,
        El::MaximumSegmentSize(v) => Opt::Mss(*v),
        El::WindowScale(v) => Opt::Wscale(*v),
        El::SelectiveAcknowledgementPermitted => Opt::SackPermitted,
        El::SelectiveAcknowledgement(first, rest) => {
            let mut b = vec![*first];
            for r in rest.iter().flatten() {
                b.push(*r);
            }
            Opt::Sack(b)
        }
        El::Timestamp(a, b) => Opt::Timestamps(*a, *b),
    }
}

fn has_gap(e: &El) -> bool {
    if let El::SelectiveAcknowledgement(_, rest) = e {
        let mut seen_none = false;
        for r in rest {
            match r {
                None => seen_none = true,
                Some(_) if seen_none => return true,
                _ => {}
            }
        }
    }
    false
}

/// An error statement about a malformed option.
#[derive(Clone, Debug, PartialEq, Eq)]
enum BadErr {
    /// "option `id` needs at least `expected` bytes, only `actual` are left"
    Eos { id: u8, expected: u8, actual: usize },
    /// "option `id` carries the length byte `size`, which is not a legal length for it"
    Size { id: u8, size: u8 },
    Unknown(u8),
}

fn same_err(e: &RErr, m: &BadErr) -> bool {
    match (e, m) {
        (RErr::UnexpectedEndOfSlice { option_id, expected_len, actual_len }, BadErr::Eos { id, expected, actual }) => {
            option_id == id && expected_len == expected && actual_len == actual
        }
        (RErr::UnexpectedSize { option_id, size }, BadErr::Size { id, size: s }) => option_id == id && size == s,
        (RErr::UnknownId(k), BadErr::Unknown(j)) => k == j,
        _ => false,
    }
}

#[derive(Clone, Debug, PartialEq, Eq)]
enum End {
    /// every byte belongs to a well-formed option
    Exhausted,
    /// end-of-option-list byte at this offset
    Eol(usize),
    /// malformed or unknown option at `at`; `accept` = all error statements true of the bytes
    Bad { at: usize, accept: Vec<BadErr> },
}

impl End {
    fn class(&self) -> &'static str {
        match self {
            End::Exhausted => "end",
            End::Eol(_) => "eol",
            End::Bad { accept, .. } => {
                let eos = accept.iter().any(|a| matches!(a, BadErr::Eos { .. }));
                let size = accept.iter().any(|a| matches!(a, BadErr::Size { .. }));
                match (eos, size) {
                    (true, true) => "eos+size",
                    (true, false) => "eos",
                    (false, true) => "size",
                    _ => "unknown",
                }
            }
        }
    }
}

#[derive(Clone, Debug, PartialEq, Eq)]
struct Walk {
    /// (offset, option)
    items: Vec<(usize, Opt)>,
    end: End,
}

/// Reference tokenizer.
fn tokenize(b: &[u8]) -> Walk {
    let mut items = vec![];
    let mut p = 0usize;
    let end = loop {
        if p >= b.len() {
            break End::Exhausted;
        }
        let kind = b[p];
        let rem = b.len() - p;
        match kind {
            0 => break End::Eol(p),
            1 => {
                items.push((p, Opt::Nop));
                p += 1;
            }
            2 | 3 | 4 | 8 => {
                let l: u8 = match kind {
                    2 => 4,
                    3 => 3,
                    4 => 2,
                    _ => 10,
                };
                let lu = l as usize;
                if rem >= lu && b[p + 1] == l {
                    let body = &b[p + 2..p + lu];
                    let o = match kind {
                        2 => Opt::Mss(((body[0] as u16) << 8) | body[1] as u16),
                        3 => Opt::Wscale(body[0]),
                        4 => Opt::SackPermitted,
                        _ => Opt::Timestamps(get32(&body[0..4]), get32(&body[4..8])),
                    };
                    items.push((p, o));
                    p += lu;
                } else {
                    let mut accept = vec![];
                    if rem < lu {
                        accept.push(BadErr::Eos { id: kind, expected: l, actual: rem });
                        if rem < 2 && l != 2 {
                            // not even the length byte is there
                            accept.push(BadErr::Eos { id: kind, expected: 2, actual: rem });
                        }
                    }
                    if rem >= 2 && b[p + 1] != l {
                        accept.push(BadErr::Size { id: kind, size: b[p + 1] });
                    }
                    break End::Bad { at: p, accept };
                }
            }
            5 => {
                if rem < 2 {
                    break End::Bad {
                        at: p,
                        accept: vec![BadErr::Eos { id: 5, expected: 2, actual: rem }, BadErr::Eos { id: 5, expected: 10, actual: rem }],
                    };
                }
                let v = b[p + 1];
                let legal = v == 10 || v == 18 || v == 26 || v == 34;
                if legal && rem >= v as usize {
                    let n = (v as usize - 2) / 8;
                    let mut blocks = vec![];
                    for i in 0..n {
                        let o = p + 2 + 8 * i;
                        blocks.push((get32(&b[o..o + 4]), get32(&b[o + 4..o + 8])));
                    }
                    items.push((p, Opt::Sack(blocks)));
                    p += v as usize;
                } else {
                    let mut accept = vec![];
                    if legal {
                        accept.push(BadErr::Eos { id: 5, expected: v, actual: rem });
                    } else {
                        accept.push(BadErr::Size { id: 5, size: v });
                    }
                    if rem < 10 && v != 10 {
                        // the smallest SACK option does not fit either
                        accept.push(BadErr::Eos { id: 5, expected: 10, actual: rem });
                    }
                    break End::Bad { at: p, accept };
                }
            }
            k => break End::Bad { at: p, accept: vec![BadErr::Unknown(k)] },
        }
    };
    Walk { items, end }
}

fn pad4(b: &[u8]) -> Vec<u8> {
    let mut v = b.to_vec();
    while v.len() % 4 != 0 {
        v.push(0);
    }
    v
}

/// structural shape of the bytes at an offset (for failure signatures)
fn shape_at(b: &[u8], at: usize) -> String {
    if at >= b.len() {
        return "end".into();
    }
    let k = b[at];
    let rem = b.len() - at;
    let legal: &[u8] = match k {
        0 => return "k0".into(),
        1 => return "k1".into(),
        2 => &[4],
        3 => &[3],
        4 => &[2],
        5 => &[10, 18, 26, 34],
        8 => &[10],
        _ => return "unk".into(),
    };
    if rem < 2 {
        return format!("k{}:nolen", k);
    }
    let l = b[at + 1];
    if legal.contains(&l) {
        if rem >= l as usize {
            format!("k{}:l{}:fits", k, l)
        } else {
            format!("k{}:l{}:short", k, l)
        }
    } else if rem < legal[0] as usize {
        format!("k{}:badlen:short", k)
    } else {
        format!("k{}:badlen", k)
    }
}

fn kinds_sig(items: &[(usize, Opt)]) -> String {
    // Noop runs collapsed, at most 5 symbols, then a bucket of the total count
    let mut s = String::new();
    let mut n = 0;
    let mut last_nop = false;
    for (_, o) in items {
        if matches!(o, Opt::Nop) {
            if last_nop {
                continue;
            }
            last_nop = true;
        } else {
            last_nop = false;
        }
        if n == 5 {
            s.push_str(match items.len() {
                0..=12 => "+a",
                13..=20 => "+b",
                _ => "+c",
            });
            break;
        }
        s.push_str(o.sym());
        n += 1;
    }
    s
}

// ------------------------------------------------------------------------------------------------
// JSON forms (replay)

fn blk_json(b: &(u32, u32)) -> Value {
    json!([b.0, b.1])
}

fn el_json(e: &El) -> Value {
    match e {
        El::Noop => json!(["noop"]),
        El::MaximumSegmentSize(v) => json!(["mss", v]),
        El::WindowScale(v) => json!(["ws", v]),
        El::SelectiveAcknowledgementPermitted => json!(["sackp"]),
        El::SelectiveAcknowledgement(f, r) => {
            let rest: Vec<Value> = r.iter().map(|x| x.as_ref().map(blk_json).unwrap_or(Value::Null)).collect();
            json!(["sack", blk_json(f), rest])
        }
        El::Timestamp(a, b) => json!(["ts", a, b]),
    }
}

fn els_json(els: &[El]) -> Value {
    Value::Array(els.iter().map(el_json).collect())
}

fn blk_from(v: &Value) -> Option<(u32, u32)> {
    let a = v.as_array()?;
    Some((a.first()?.as_u64()? as u32, a.get(1)?.as_u64()? as u32))
}

fn el_from_json(v: &Value) -> Option<El> {
    let a = v.as_array()?;
    let n = |i: usize| a.get(i).and_then(|x| x.as_u64());
    Some(match a.first()?.as_str()? {
        "noop" => El::Noop,
        "mss" => El::MaximumSegmentSize(n(1)? as u16),
        "ws" => El::WindowScale(n(1)? as u8),
        "sackp" => El::SelectiveAcknowledgementPermitted,
        "sack" => {
            let first = blk_from(a.get(1)?)?;
            let mut rest = [None; 3];
            if let Some(r) = a.get(2).and_then(|x| x.as_array()) {
                for (i, x) in r.iter().take(3).enumerate() {
                    rest[i] = blk_from(x);
                }
            }
            El::SelectiveAcknowledgement(first, rest)
        }
        "ts" => El::Timestamp(n(1)? as u32, n(2)? as u32),
        _ => return None,
    })
}

// ------------------------------------------------------------------------------------------------
// checks

type Input<'a> = &'a dyn Fn() -> Value;

fn flag(ctx: &mut Ctx, entry: &str, ty: &str, clause: &str, shape: &str, detail: String, input: Input) -> Result<(), Failure> {
    ctx.fail(Failure::new(format!("C13|{}|{}|{}|{}", entry, ty, clause, shape), clause, detail, input()))
}

/// Drives one iterator over `base` (the bytes it was created on) step by step against the
/// reference walk: every item, `rest()` after every step, the stop, and exhaustion afterwards.
fn check_iter(entry: &str, mut it: TcpOptionsIterator<'_>, base: &[u8], exp: &Walk, ctx: &mut Ctx, input: Input) -> Result<(), Failure> {
    ctx.eval(1);
    const TY: &str = "TcpOptionsIterator";
    if it.rest() != base {
        flag(ctx, entry, TY, "rest() before the first next() is the whole area", "start", format!("rest()={:02x?} area={:02x?}", it.rest(), base), input)?;
        return Ok(());
    }
    if let Some(m) = crate::obs::iterlaws::iter_laws(&it, base.len() + 2) {
        flag(ctx, entry, TY, "nth/skip/step_by/count/last/size_hint/collect describe the sequence next() yields", "iterator-methods", format!("{}; area={:02x?}", m, base), input)?;
        return Ok(());
    }
    for (idx, (off, opt)) in exp.items.iter().enumerate() {
        let got = it.next();
        let want = opt.to_crate();
        match &got {
            Some(Ok(e)) if *e == want => {}
            _ => {
                let clause = match &got {
                    None => "iteration ends before a well-formed option",
                    Some(Err(_)) => "well-formed option is rejected",
                    Some(Ok(_)) => "decoded element equals the option on the wire",
                };
                flag(
                    ctx,
                    entry,
                    TY,
                    clause,
                    &shape_at(base, *off),
                    format!("item #{} at offset {}: expected Some(Ok({:?})), got {:?}; area={:02x?}", idx, off, want, got, base),
                    input,
                )?;
                return Ok(());
            }
        }
        let consumed = off + opt.size();
        if it.rest() != &base[consumed..] {
            flag(
                ctx,
                entry,
                TY,
                "rest() is the area minus the bytes of the items returned so far",
                &shape_at(base, *off),
                format!(
                    "after item #{} (offset {}, {} bytes): rest().len()={} expected {}; area={:02x?}",
                    idx,
                    off,
                    opt.size(),
                    it.rest().len(),
                    base.len() - consumed,
                    base
                ),
                input,
            )?;
            return Ok(());
        }
    }
    let got = it.next();
    match &exp.end {
        End::Exhausted => {
            if got.is_some() {
                flag(ctx, entry, TY, "no item after the last byte was consumed", "end", format!("got {:?}; area={:02x?}", got, base), input)?;
                return Ok(());
            }
        }
        End::Eol(at) => {
            if got.is_some() {
                flag(
                    ctx,
                    entry,
                    TY,
                    "end-of-list terminates the iteration",
                    "k0",
                    format!("EOL at offset {} but next() = {:?}; area={:02x?}", at, got, base),
                    input,
                )?;
                return Ok(());
            }
        }
        End::Bad { at, accept } => match &got {
            Some(Err(e)) if accept.iter().any(|a| same_err(e, a)) => {}
            Some(Err(e)) => {
                flag(
                    ctx,
                    entry,
                    TY,
                    "error states the real kind, size and remaining length",
                    &shape_at(base, *at),
                    format!("at offset {} (remaining {}): got {:?}, true statements: {:?}; area={:02x?}", at, base.len() - at, e, accept, base),
                    input,
                )?;
                return Ok(());
            }
            other => {
                flag(
                    ctx,
                    entry,
                    TY,
                    "malformed or unknown option stops the iteration with an error",
                    &shape_at(base, *at),
                    format!("at offset {} (remaining {}): got {:?}, expected one of {:?}; area={:02x?}", at, base.len() - at, other, accept, base),
                    input,
                )?;
                return Ok(());
            }
        },
    }
    for round in 0..3 {
        if !it.rest().is_empty() {
            flag(
                ctx,
                entry,
                TY,
                "rest() is empty after the stop",
                exp.end.class(),
                format!("round {}: rest()={:02x?}; area={:02x?}", round, it.rest(), base),
                input,
            )?;
            return Ok(());
        }
        let again = it.next();
        if again.is_some() {
            flag(
                ctx,
                entry,
                TY,
                "next() stays None after the stop",
                exp.end.class(),
                format!("round {}: next()={:?}; area={:02x?}", round, again, base),
                input,
            )?;
            return Ok(());
        }
    }
    Ok(())
}

/// len()/len_u8()/is_empty()/data_offset()/deref of a TcpOptions whose bytes must be `want`.
fn check_options_value(entry: &str, o: &TcpOptions, want: &[u8], shape: &str, ctx: &mut Ctx, input: Input) -> Result<bool, Failure> {
    const TY: &str = "TcpOptions";
    if o.as_slice() != want {
        flag(
            ctx,
            entry,
            TY,
            "bytes equal the reference encoding zero-padded to a multiple of four",
            shape,
            format!("as_slice()={:02x?} expected {:02x?}", o.as_slice(), want),
            input,
        )?;
        return Ok(false);
    }
    let n = want.len();
    let deref: &[u8] = o;
    if o.len() != n || o.len_u8() as usize != n || o.is_empty() != (n == 0) || deref != want || o.data_offset() as usize != 5 + n / 4 {
        flag(
            ctx,
            entry,
            TY,
            "len, len_u8, is_empty and data_offset agree with the bytes",
            shape,
            format!("len()={} len_u8()={} is_empty()={} data_offset()={} for {} option bytes", o.len(), o.len_u8(), o.is_empty(), o.data_offset(), n),
            input,
        )?;
        return Ok(false);
    }
    Ok(true)
}

const PAYLOAD: [u8; 3] = [0xee, 0xdd, 0xcc];

fn base_header() -> TcpHeader {
    let mut h = TcpHeader::new(0x1234, 0x5678, 0x9abc_def0, 0x4321);
    h.acknowledgment_number = 0x0fed_cba9;
    h.ack = true;
    h.psh = true;
    h.checksum = 0xa55a;
    h.urgent_pointer = 0x0102;
    h
}

/// RFC 9293 header bytes of `base_header()` carrying `opts` (a multiple of four, at most 40 bytes),
/// written by hand.
fn wire_header(opts: &[u8]) -> Vec<u8> {
    let mut v = vec![
        0x12,
        0x34,
        0x56,
        0x78,
        0x9a,
        0xbc,
        0xde,
        0xf0,
        0x0f,
        0xed,
        0xcb,
        0xa9,
        ((5 + opts.len() / 4) as u8) << 4,
        0x18,
        0x43,
        0x21,
        0xa5,
        0x5a,
        0x01,
        0x02,
    ];
    v.extend_from_slice(opts);
    v
}

/// The same option bytes reached through the header types: `TcpHeader` (already carrying the
/// options), its serialisation, and the slice types decoding a hand-written header.
fn check_header_paths(via: &str, h: &TcpHeader, padded: &[u8], exp: &Walk, shape: &str, ctx: &mut Ctx, input: Input) -> Result<(), Failure> {
    let n = padded.len();
    if !check_options_value(&format!("{}.options", via), &h.options, padded, shape, ctx, input)? {
        return Ok(());
    }
    if h.data_offset() as usize != 5 + n / 4 || h.header_len() != 20 + n || h.header_len_u16() as usize != 20 + n {
        flag(
            ctx,
            via,
            "TcpHeader",
            "data_offset and header_len follow the option length",
            shape,
            format!("data_offset()={} header_len()={} header_len_u16()={} with {} option bytes", h.data_offset(), h.header_len(), h.header_len_u16(), n),
            input,
        )?;
        return Ok(());
    }
    check_iter(&format!("{}→TcpHeader::options_iterator", via), h.options_iterator(), h.options.as_slice(), exp, ctx, input)?;

    let wire = wire_header(padded);
    let ser = h.to_bytes();
    if ser.as_slice() != wire.as_slice() {
        flag(
            ctx,
            &format!("{}→TcpHeader::to_bytes", via),
            "TcpHeader",
            "serialised header carries the data offset and the option bytes",
            shape,
            format!("to_bytes()={:02x?} expected {:02x?}", ser.as_slice(), wire),
            input,
        )?;
        return Ok(());
    }
    let mut pkt = wire.clone();
    pkt.extend_from_slice(&PAYLOAD);

    match TcpHeaderSlice::from_slice(&pkt) {
        Ok(s) => {
            if s.options() != padded || s.slice().len() != 20 + n {
                flag(
                    ctx,
                    "TcpHeaderSlice::from_slice",
                    "TcpHeaderSlice",
                    "options() is the area given by the data offset",
                    shape,
                    format!("options()={:02x?} expected {:02x?}", s.options(), padded),
                    input,
                )?;
                return Ok(());
            }
            check_iter("TcpHeaderSlice::options_iterator", s.options_iterator(), s.options(), exp, ctx, input)?;
            let th = s.to_header();
            if th != *h {
                flag(
                    ctx,
                    "TcpHeaderSlice::to_header",
                    "TcpHeader",
                    "decoded header equals the header that carries the options",
                    shape,
                    format!("to_header().options={:02x?} expected {:02x?}", th.options.as_slice(), padded),
                    input,
                )?;
                return Ok(());
            }
        }
        Err(e) => {
            flag(ctx, "TcpHeaderSlice::from_slice", "TcpHeaderSlice", "hand-written header decodes", shape, format!("{:?} on {:02x?}", e, pkt), input)?;
            return Ok(());
        }
    }
    match TcpSlice::from_slice(&pkt) {
        Ok(s) => {
            if s.options() != padded || s.header_len() != 20 + n || s.payload() != PAYLOAD {
                flag(
                    ctx,
                    "TcpSlice::from_slice",
                    "TcpSlice",
                    "options() is the area given by the data offset",
                    shape,
                    format!("options()={:02x?} expected {:02x?}, header_len()={}", s.options(), padded, s.header_len()),
                    input,
                )?;
                return Ok(());
            }
            check_iter("TcpSlice::options_iterator", s.options_iterator(), s.options(), exp, ctx, input)?;
            if s.to_header() != *h {
                flag(
                    ctx,
                    "TcpSlice::to_header",
                    "TcpHeader",
                    "decoded header equals the header that carries the options",
                    shape,
                    format!("to_header().options={:02x?} expected {:02x?}", s.to_header().options.as_slice(), padded),
                    input,
                )?;
                return Ok(());
            }
        }
        Err(e) => {
            flag(ctx, "TcpSlice::from_slice", "TcpSlice", "hand-written header decodes", shape, format!("{:?} on {:02x?}", e, pkt), input)?;
            return Ok(());
        }
    }
    match TcpHeader::from_slice(&pkt) {
        Ok((d, rest)) => {
            if d != *h || rest != PAYLOAD {
                flag(
                    ctx,
                    "TcpHeader::from_slice",
                    "TcpHeader",
                    "decoded header equals the header that carries the options",
                    shape,
                    format!("options={:02x?} expected {:02x?}, rest={:02x?}", d.options.as_slice(), padded, rest),
                    input,
                )?;
                return Ok(());
            }
            check_iter("TcpHeader::from_slice→options_iterator", d.options_iterator(), d.options.as_slice(), exp, ctx, input)?;
        }
        Err(e) => {
            flag(ctx, "TcpHeader::from_slice", "TcpHeader", "hand-written header decodes", shape, format!("{:?} on {:02x?}", e, pkt), input)?;
            return Ok(());
        }
    }
    let mut cur = std::io::Cursor::new(&pkt[..]);
    match TcpHeader::read(&mut cur) {
        Ok(d) => {
            if d != *h || cur.position() as usize != 20 + n {
                flag(
                    ctx,
                    "TcpHeader::read",
                    "TcpHeader",
                    "decoded header equals the header that carries the options",
                    shape,
                    format!("options={:02x?} expected {:02x?}, position={}", d.options.as_slice(), padded, cur.position()),
                    input,
                )?;
                return Ok(());
            }
            check_iter("TcpHeader::read→options_iterator", d.options_iterator(), d.options.as_slice(), exp, ctx, input)?;
        }
        Err(e) => {
            flag(ctx, "TcpHeader::read", "TcpHeader", "hand-written header decodes", shape, format!("{:?} on {:02x?}", e, pkt), input)?;
            return Ok(());
        }
    }
    Ok(())
}

fn size_bucket(need: usize) -> &'static str {
    match need {
        0 => "0",
        1..=36 => "1-36",
        37..=40 => "37-40",
        41..=44 => "41-44",
        _ => "45+",
    }
}

/// Encode direction.
fn check_encode(els: &[El], count: bool, ctx: &mut Ctx) -> Result<(), Failure> {
    let input = || json!({"kind": "enc", "elements": els_json(els)});
    let input: Input = &input;
    let model: Vec<Opt> = els.iter().map(model_of).collect();
    let mut wire = vec![];
    let mut items = vec![];
    for o in &model {
        items.push((wire.len(), o.clone()));
        o.emit(&mut wire);
    }
    let need = wire.len();
    let fits = need <= 40;
    let padded = pad4(&wire);
    let gap = els.iter().any(has_gap);
    let exp = Walk { items, end: if need % 4 == 0 { End::Exhausted } else { End::Eol(need) } };
    let shape = format!("need={},pad={}{}", size_bucket(need), (4 - need % 4) % 4, if gap { ",gap" } else { "" });

    if count {
        ctx.class(&format!("enc:need={}", size_bucket(need)));
        if fits {
            ctx.class(&format!("enc:pad={}", (4 - need % 4) % 4));
        }
        if gap {
            ctx.class("enc:sack-gap");
        }
        for o in &model {
            if let Opt::Sack(b) = o {
                ctx.class(&format!("enc:sack-blocks={}", b.len()));
            }
        }
        if els.len() >= 2 || (!fits && !els.is_empty()) {
            let sig = format!("enc:{}:{}", kinds_sig(&exp.items), if fits { format!("pad{}", (4 - need % 4) % 4) } else { format!("rej{}", size_bucket(need)) });
            ctx.nontrivial(&sig, || json!({"elements": els_json(els), "needed_bytes": need}));
        }
    }

    // the reference must agree with itself: tokenizing its own (padded) encoding gives the model back
    if fits {
        let w = tokenize(&padded);
        if w != exp {
            flag(ctx, "oracle", "reference", "reference tokenizer inverts reference encoder", &shape, format!("{:?} vs {:?}", w, exp), input)?;
            return Ok(());
        }
    }

    let results: [(&str, Result<TcpOptions, WErr>); 2] = [
        ("TcpOptions::try_from_elements", TcpOptions::try_from_elements(els)),
        ("TcpOptions::try_from(&[TcpOptionElement])", TcpOptions::try_from(els)),
    ];
    for (entry, res) in results.iter() {
        ctx.eval(1);
        match res {
            Err(WErr::NotEnoughSpace(n)) => {
                if fits {
                    flag(ctx, entry, "TcpOptions", "a list that fits into 40 bytes is encoded", &shape, format!("needs {} bytes, got NotEnoughSpace({})", need, n), input)?;
                    return Ok(());
                } else if *n != need {
                    flag(ctx, entry, "TcpOptions", "rejection reports the required size", &shape, format!("needs {} bytes, got NotEnoughSpace({})", need, n), input)?;
                    return Ok(());
                }
            }
            Ok(o) => {
                if !fits {
                    flag(
                        ctx,
                        entry,
                        "TcpOptions",
                        "a list that needs more than 40 bytes is rejected",
                        &shape,
                        format!("needs {} bytes, got Ok with {} bytes", need, o.len()),
                        input,
                    )?;
                    return Ok(());
                }
                if !check_options_value(entry, o, &padded, &shape, ctx, input)? {
                    return Ok(());
                }
                check_iter(&format!("{}→elements_iter", entry), o.elements_iter(), o.as_slice(), &exp, ctx, input)?;
            }
        }
    }

    // through the header
    let mut h = base_header();
    ctx.eval(1);
    match h.set_options(els) {
        Err(WErr::NotEnoughSpace(n)) => {
            if fits || n != need {
                flag(
                    ctx,
                    "TcpHeader::set_options",
                    "TcpHeader",
                    if fits { "a list that fits into 40 bytes is encoded" } else { "rejection reports the required size" },
                    &shape,
                    format!("needs {} bytes, got NotEnoughSpace({})", need, n),
                    input,
                )?;
            }
        }
        Ok(()) => {
            if !fits {
                flag(
                    ctx,
                    "TcpHeader::set_options",
                    "TcpHeader",
                    "a list that needs more than 40 bytes is rejected",
                    &shape,
                    format!("needs {} bytes, got Ok with {} bytes", need, h.options.len()),
                    input,
                )?;
                return Ok(());
            }
            check_header_paths("TcpHeader::set_options", &h, &padded, &exp, &shape, ctx, input)?;
        }
    }
    Ok(())
}

fn from_array(b: &[u8]) -> Option<TcpOptions> {
    macro_rules! arms {
        ($($n:literal),*) => {
            match b.len() {
                $( $n => { let a: [u8; $n] = b.try_into().unwrap(); Some(TcpOptions::from(a)) } )*
                _ => None,
            }
        };
    }
    arms!(4, 8, 12, 16, 20, 24, 28, 32, 36, 40)
}

/// Decode direction on a raw option area. `full` = also the conversions and header paths.
fn check_area(area: &[u8], full: bool, count: bool, ctx: &mut Ctx) -> Result<(), Failure> {
    let input = || json!({"kind": "raw", "area_hex": hex(area)});
    let input: Input = &input;
    let walk = tokenize(area);

    if count {
        ctx.class(&format!("dec:stop={}", walk.end.class()));
        if full {
            ctx.class(match walk.items.len() {
                0 => "dec:items=0",
                1 => "dec:items=1",
                2..=4 => "dec:items=2-4",
                _ => "dec:items=5+",
            });
            for (_, o) in &walk.items {
                if let Opt::Sack(b) = o {
                    ctx.class(&format!("dec:sack-blocks={}", b.len()));
                }
            }
            if let End::Bad { at, .. } = &walk.end {
                if *at > 0 {
                    ctx.class("dec:error-after-items");
                }
                if area[*at] == 5 {
                    ctx.class("dec:error-in-sack");
                }
            }
        }
        let bad = matches!(walk.end, End::Bad { .. });
        if walk.items.len() >= 2 || (bad && !walk.items.is_empty()) {
            let sig = format!("raw:{}:{}", kinds_sig(&walk.items), walk.end.class());
            ctx.nontrivial(&sig, || json!({"area_hex": hex(area), "options": walk.items.len(), "stop": walk.end.class()}));
        }
    }

    // 1. the iterator directly on the area; the area sits inside a larger buffer so that a read
    //    past its end would pick up foreign bytes instead of leaving the allocation
    {
        let mut buf = Vec::with_capacity(area.len() + 56);
        buf.extend_from_slice(&[0x5a; 8]);
        buf.extend_from_slice(area);
        buf.extend_from_slice(&[0xa5; 48]);
        let s = &buf[8..8 + area.len()];
        check_iter("TcpOptionsIterator::from_slice", TcpOptionsIterator::from_slice(s), s, &walk, ctx, input)?;
    }

    // 2. conversion of the area into TcpOptions
    let shape = format!("len%4={}", area.len() % 4);
    ctx.eval(1);
    let res = TcpOptions::try_from_slice(area);
    if area.len() > 40 {
        match res {
            Err(WErr::NotEnoughSpace(n)) if n == area.len() => {}
            other => {
                flag(
                    ctx,
                    "TcpOptions::try_from_slice",
                    "TcpOptions",
                    "more than 40 bytes are rejected with the length",
                    "len>40",
                    format!("{} bytes: {:?}", area.len(), other.map(|o| o.len())),
                    input,
                )?;
            }
        }
        if full {
            let mut h = base_header();
            match h.set_options_raw(area) {
                Err(WErr::NotEnoughSpace(n)) if n == area.len() => {}
                other => {
                    flag(
                        ctx,
                        "TcpHeader::set_options_raw",
                        "TcpHeader",
                        "more than 40 bytes are rejected with the length",
                        "len>40",
                        format!("{} bytes: {:?}", area.len(), other),
                        input,
                    )?;
                }
            }
        }
        return Ok(());
    }
    let padded = pad4(area);
    let pwalk = if padded.len() == area.len() { walk } else { tokenize(&padded) };
    let o = match res {
        Ok(o) => o,
        Err(e) => {
            flag(ctx, "TcpOptions::try_from_slice", "TcpOptions", "up to 40 bytes are accepted", &shape, format!("{} bytes: {:?}", area.len(), e), input)?;
            return Ok(());
        }
    };
    if !check_options_value("TcpOptions::try_from_slice", &o, &padded, &shape, ctx, input)? {
        return Ok(());
    }
    check_iter("TcpOptions::try_from_slice→elements_iter", o.elements_iter(), o.as_slice(), &pwalk, ctx, input)?;
    if !full {
        return Ok(());
    }
    ctx.eval(1);
    match TcpOptions::try_from(area) {
        Ok(o2) if o2 == o && o2.as_slice() == padded.as_slice() => {}
        other => {
            flag(
                ctx,
                "TcpOptions::try_from(&[u8])",
                "TcpOptions",
                "bytes equal the reference encoding zero-padded to a multiple of four",
                &shape,
                format!("{:?} expected {:02x?}", other.map(|x| x.as_slice().to_vec()), padded),
                input,
            )?;
            return Ok(());
        }
    }
    if area.len() % 4 == 0 {
        if let Some(oa) = from_array(area) {
            ctx.eval(1);
            if check_options_value("TcpOptions::from([u8;N])", &oa, area, &shape, ctx, input)? {
                check_iter("TcpOptions::from([u8;N])→elements_iter", oa.elements_iter(), oa.as_slice(), &pwalk, ctx, input)?;
            }
        }
    }
    // 3. through the header types
    let mut h = base_header();
    ctx.eval(1);
    match h.set_options_raw(area) {
        Ok(()) => check_header_paths("TcpHeader::set_options_raw", &h, &padded, &pwalk, &shape, ctx, input)?,
        Err(e) => {
            flag(ctx, "TcpHeader::set_options_raw", "TcpHeader", "up to 40 bytes are accepted", &shape, format!("{} bytes: {:?}", area.len(), e), input)?;
        }
    }
    Ok(())
}

// ------------------------------------------------------------------------------------------------
// generators

fn gen_block(t: &mut Tape) -> (u32, u32) {
    (t.u32_corner(), t.u32_corner())
}

/// element of a given shape: 0 Noop, 1 MSS, 2 window scale, 3 SACK permitted, 4 timestamps,
/// 5.. SACK with the `shape - 5` bit pattern of extra blocks
fn gen_shape(t: &mut Tape, shape: usize) -> El {
    match shape {
        0 => El::Noop,
        1 => El::MaximumSegmentSize(t.u16_corner()),
        2 => El::WindowScale(t.u8_corner()),
        3 => El::SelectiveAcknowledgementPermitted,
        4 => El::Timestamp(t.u32_corner(), t.u32_corner()),
        s => {
            let pat = (s - 5) & 7;
            let first = gen_block(t);
            let mut rest = [None; 3];
            for (i, r) in rest.iter_mut().enumerate() {
                if pat & (1 << i) != 0 {
                    *r = Some(gen_block(t));
                }
            }
            El::SelectiveAcknowledgement(first, rest)
        }
    }
}

fn gen_element(t: &mut Tape) -> El {
    // Noop, MSS, WS, SACKP, TS, SACK
    let k = t.weighted(&[4, 3, 3, 3, 3, 5]);
    if k < 5 {
        gen_shape(t, k)
    } else {
        // patterns: 0 = none, 1 = S--, 3 = SS-, 7 = SSS (compact); 2,4,5,6 have gaps
        let pat = t.pick(&[0usize, 1, 3, 7, 7, 2, 4, 5, 6]);
        gen_shape(t, 5 + pat)
    }
}

fn el_size(e: &El) -> usize {
    model_of(e).size()
}

/// an element of at most `room` bytes (room >= 1)
fn gen_fitting(t: &mut Tape, room: usize) -> El {
    let e = gen_element(t);
    if el_size(&e) <= room {
        return e;
    }
    // largest fixed shape that fits; deterministic, no rejection loop
    match room {
        1 => El::Noop,
        2 => El::SelectiveAcknowledgementPermitted,
        3 => El::WindowScale(t.u8()),
        4..=9 => El::MaximumSegmentSize(t.u16()),
        _ => El::Timestamp(t.u32(), t.u32()),
    }
}

fn gen_elements(t: &mut Tape) -> Vec<El> {
    let mut v = vec![];
    match t.weighted(&[6, 3, 2, 1]) {
        3 => {
            // long lists (a caller trimming an arbitrary list by the reported size): total size
            // exactly around 2^8, anywhere up to ~1200, or around 2^16 - where a size kept in a
            // narrower integer wraps. Mostly one repeated element, the last 40 bytes free.
            let target = match t.weighted(&[4, 2, 2]) {
                0 => 249 + t.below(16),
                1 => 41 + t.below(1200),
                _ => 65_528 + t.below(16),
            };
            let filler = gen_element(t);
            let fs = el_size(&filler);
            let mut size = 0;
            while size + fs + 40 <= target {
                v.push(filler.clone());
                size += fs;
            }
            while size < target {
                let e = gen_fitting(t, target - size);
                size += el_size(&e);
                v.push(e);
            }
        }
        0 => {
            // total size exactly `target`; one tape byte decides: 0..=32 or, for the larger part of
            // the byte range, around the 40 byte limit (33..=48)
            let b = t.u8() as usize;
            let target = if b < 99 { b / 3 } else { 33 + (b - 99) / 10 };
            let mut size = 0;
            while size < target {
                let e = gen_fitting(t, target - size);
                size += el_size(&e);
                v.push(e);
            }
        }
        1 => {
            // short list of unconstrained size
            let n = t.below(6);
            for _ in 0..n {
                v.push(gen_element(t));
            }
        }
        _ => {
            // few large ones: far beyond the limit
            let n = 1 + t.below(5);
            for _ in 0..n {
                let pat = t.below(8);
                v.push(gen_shape(t, 5 + pat));
                if t.chance(1, 3) {
                    v.push(gen_element(t));
                }
            }
        }
    }
    v
}

const UNKNOWN_KINDS: [u8; 12] = [6, 7, 9, 19, 28, 29, 30, 34, 69, 253, 254, 255];

fn gen_structured_area(t: &mut Tape, ctx: &mut Ctx) -> Vec<u8> {
    // one tape byte decides the target length: 3..=40, a multiple of four, 40, or 41..=48
    let b = t.u8() as usize;
    let target = match b {
        0..=151 => 3 + b / 4,
        152..=201 => 4 * (1 + (b - 152) / 5),
        202..=231 => 40,
        _ => 41 + (b - 232) / 3,
    };
    let exact = t.bool();
    let mut area: Vec<u8> = vec![];
    let mut segs = 0;
    while area.len() < target && segs < 48 {
        segs += 1;
        let room = target - area.len();
        match t.weighted(&[40, 2, 3]) {
            0 => {
                let e = if exact { gen_fitting(t, room) } else { gen_element(t) };
                let mut w = vec![];
                model_of(&e).emit(&mut w);
                match t.weighted(&[40, 5, 3, 3]) {
                    0 => {}
                    1 => {
                        if w.len() >= 2 {
                            let l = w[1];
                            w[1] = match t.below(14) {
                                0 => l.wrapping_sub(1),
                                1 => l.wrapping_add(1),
                                2 => 0,
                                3 => 1,
                                4 => 2,
                                5 => 3,
                                6 => 4,
                                7 => 10,
                                8 => 18,
                                9 => 26,
                                10 => 34,
                                11 => 42,
                                12 => 255,
                                _ => t.u8(),
                            };
                            ctx.class("gen:perturbed-length-byte");
                        }
                    }
                    2 => {
                        w[0] = match t.below(12) {
                            0 => 0,
                            1 => 1,
                            2 => 2,
                            3 => 3,
                            4 => 4,
                            5 => 5,
                            6 => 8,
                            7 => 6,
                            8 => 7,
                            9 => 9,
                            10 => 255,
                            _ => t.u8(),
                        };
                        ctx.class("gen:perturbed-kind-byte");
                    }
                    _ => {
                        if w.len() >= 2 {
                            let cut = 1 + t.below(w.len() - 1);
                            w.truncate(w.len() - cut);
                            ctx.class("gen:shortened-option");
                        }
                    }
                }
                area.extend_from_slice(&w);
            }
            1 => {
                // end-of-list; whatever follows is padding as far as the RFC is concerned
                area.push(0);
                ctx.class("gen:eol-inside");
            }
            _ => {
                let k = t.pick(&UNKNOWN_KINDS);
                let n = t.below(6);
                area.push(k);
                area.push(2 + n as u8);
                for _ in 0..n {
                    area.push(t.u8());
                }
                ctx.class("gen:unknown-kind");
            }
        }
    }
    if area.len() > target {
        area.truncate(target);
        ctx.class("gen:cut-at-target");
    }
    area
}

const NOISE_ALPHABET: [u8; 14] = [0, 1, 2, 3, 4, 5, 8, 10, 18, 26, 34, 6, 40, 255];

fn gen_noise_area(t: &mut Tape) -> Vec<u8> {
    let n = t.range(0, 40);
    let plain = t.chance(1, 3);
    (0..n).map(|_| if plain || t.chance(1, 4) { t.u8() } else { t.pick(&NOISE_ALPHABET) }).collect()
}

enum Case {
    Enc(Vec<El>),
    Raw(Vec<u8>),
}

fn gen_case(t: &mut Tape, ctx: &mut Ctx) -> Case {
    match t.weighted(&[8, 10, 3]) {
        0 => {
            ctx.class("gen:element-list");
            Case::Enc(gen_elements(t))
        }
        1 => {
            ctx.class("gen:structured-area");
            Case::Raw(gen_structured_area(t, ctx))
        }
        _ => {
            ctx.class("gen:noise-area");
            Case::Raw(gen_noise_area(t))
        }
    }
}

// ------------------------------------------------------------------------------------------------
// enumerated sub-domains

/// deterministic, byte-distinct values for the enumerated element lists (position `i` in the list)
fn fixed_shape(shape: usize, i: usize) -> El {
    let i = i as u32;
    let blk = |j: u32| (0x1112_1314u32.wrapping_add(0x2020_2020u32.wrapping_mul(j)).wrapping_add(i), 0x8182_8384u32.wrapping_add(0x1010_1010u32.wrapping_mul(j)).wrapping_add(i << 8));
    match shape {
        0 => El::Noop,
        1 => El::MaximumSegmentSize(0x0102u16.wrapping_add((i as u16).wrapping_mul(0x1010))),
        2 => El::WindowScale(0x0eu8.wrapping_add(i as u8)),
        3 => El::SelectiveAcknowledgementPermitted,
        4 => El::Timestamp(0x0102_0304u32.wrapping_add(i), 0xa1a2_a3a4u32.wrapping_add(i << 16)),
        s => {
            let pat = (s - 5) & 7;
            let mut rest = [None; 3];
            for (k, r) in rest.iter_mut().enumerate() {
                if pat & (1 << k) != 0 {
                    *r = Some(blk(k as u32 + 1));
                }
            }
            El::SelectiveAcknowledgement(blk(0), rest)
        }
    }
}

const SHAPES: usize = 13;

fn seq_max_len(tier: Tier) -> usize {
    tier.pick(4, 6)
}

fn raw_max_len(tier: Tier) -> usize {
    tier.pick(2, 3)
}

const QUICK_THIRD_BYTES: [u8; 16] = [0, 1, 2, 3, 4, 5, 6, 8, 9, 10, 18, 26, 34, 0x7f, 0x80, 0xff];

/// RFC values of the public constants in `tcp_option` (anchor tcp_option_impl.rs)
fn check_constants(ctx: &mut Ctx) -> Result<(), Failure> {
    use etherparse::tcp_option::*;
    let got = [
        KIND_END,
        KIND_NOOP,
        KIND_MAXIMUM_SEGMENT_SIZE,
        KIND_WINDOW_SCALE,
        KIND_SELECTIVE_ACK_PERMITTED,
        KIND_SELECTIVE_ACK,
        KIND_TIMESTAMP,
        LEN_END,
        LEN_NOOP,
        LEN_MAXIMUM_SEGMENT_SIZE,
        LEN_WINDOW_SCALE,
        LEN_SELECTIVE_ACK_PERMITTED,
        LEN_TIMESTAMP,
    ];
    let want = [0u8, 1, 2, 3, 4, 5, 8, 1, 1, 4, 3, 2, 10];
    ctx.eval(1);
    if got != want || TcpOptions::MAX_LEN != 40 {
        let input = || json!({"kind": "constants"});
        flag(ctx, "tcp_option", "constants", "kind and length constants equal the RFC values", "consts", format!("{:?} expected {:?}", got, want), &input)?;
    }
    Ok(())
}

impl Property for C13 {
    fn id(&self) -> &'static str {
        "C13"
    }
    fn post(&self, tier: Tier, seed: u64, root: &std::path::Path) -> Result<Value, Failure> {
        // thorough: coverage-guided search over the same tapes (libFuzzer + ASan on the generic
        // `prop_tape` target; budget by measured executions per second)
        if tier == Tier::Thorough {
            crate::fuzzapi::run_prop_fuzz_campaign("C13", root, seed, 300000, 8, self.tape_len())
        } else {
            Ok(Value::Null)
        }
    }

    fn tape_len(&self) -> usize {
        256
    }

    fn cases(&self, tier: Tier) -> u64 {
        tier.pick(6_000_000, 400_000_000)
    }

    fn run_tape(&self, tape: &[u8], ctx: &mut Ctx) -> Result<(), Failure> {
        let mut t = Tape::new(tape);
        match gen_case(&mut t, ctx) {
            Case::Enc(els) => check_encode(&els, true, ctx),
            Case::Raw(area) => {
                ctx.class(match area.len() {
                    0..=3 => "dec:len=0-3",
                    4..=19 => "dec:len=4-19",
                    20..=39 => "dec:len=20-39",
                    40 => "dec:len=40",
                    _ => "dec:len=41+",
                });
                check_area(&area, true, true, ctx)
            }
        }
    }

    fn exhaustive(&self, tier: Tier, shard: u64, nshards: u64, ctx: &mut Ctx) -> Result<(), Failure> {
        // development switch for sensitivity experiments: measure the generated part alone
        if std::env::var_os("EPVERIF_C13_SKIP_ENUMERATED").is_some() {
            return Ok(());
        }
        if shard == 0 {
            check_constants(ctx)?;
        }
        let mut idx = 0u64;
        // A. every byte string up to raw_max_len
        let maxlen = raw_max_len(tier);
        for len in 0..=maxlen {
            let count = 1u64 << (8 * len);
            let full = len <= 2;
            for v in 0..count {
                idx += 1;
                if idx % nshards != shard {
                    continue;
                }
                ctx.mark_exh(len as u64, v);
                let be = v.to_be_bytes();
                check_area(&be[8 - len..], full, true, ctx)?;
            }
        }
        // A'. quick tier: a strided part of the three byte strings (all of them in thorough)
        if maxlen < 3 {
            for v in 0..65536u64 * QUICK_THIRD_BYTES.len() as u64 {
                idx += 1;
                if idx % nshards != shard {
                    continue;
                }
                let hi = v / QUICK_THIRD_BYTES.len() as u64;
                let b = [(hi >> 8) as u8, hi as u8, QUICK_THIRD_BYTES[(v % QUICK_THIRD_BYTES.len() as u64) as usize]];
                ctx.mark_exh(3, ((hi << 8) | b[2] as u64) as u64);
                check_area(&b, false, true, ctx)?;
            }
        }
        // B. every sequence of element shapes up to seq_max_len (13 shapes: five fixed kinds and SACK
        //    with each of the 8 presence patterns of the three optional blocks)
        let lmax = seq_max_len(tier);
        for len in 0..=lmax {
            let count = (SHAPES as u64).pow(len as u32);
            for v in 0..count {
                idx += 1;
                if idx % nshards != shard {
                    continue;
                }
                ctx.mark_exh(100 + len as u64, v);
                let mut x = v;
                let mut els = Vec::with_capacity(len);
                for i in 0..len {
                    els.push(fixed_shape((x % SHAPES as u64) as usize, i));
                    x /= SHAPES as u64;
                }
                check_encode(&els, true, ctx)?;
            }
        }
        // C. the 40 byte boundary for every shape: k Noops before / after one element
        for shape in 0..SHAPES {
            for k in 0..=44usize {
                for front in [false, true] {
                    idx += 1;
                    if idx % nshards != shard {
                        continue;
                    }
                    ctx.mark_exh(200 + shape as u64, (k as u64) * 2 + front as u64);
                    let mut els = vec![El::Noop; k];
                    if front {
                        els.insert(0, fixed_shape(shape, k));
                    } else {
                        els.push(fixed_shape(shape, k));
                    }
                    check_encode(&els, true, ctx)?;
                }
            }
        }
        Ok(())
    }

    fn replay(&self, input: &Value, ctx: &mut Ctx) -> Result<(), Failure> {
        match input["kind"].as_str() {
            Some("enc") => {
                let els: Vec<El> = input["elements"].as_array().map(|a| a.iter().filter_map(el_from_json).collect()).unwrap_or_default();
                check_encode(&els, false, ctx)
            }
            Some("raw") => {
                let area = input_bytes(input, "area_hex");
                check_area(&area, true, false, ctx)
            }
            Some("constants") => check_constants(ctx),
            _ => {
                // crash attribution of the enumerated part: {"exh": [a, b]}
                if let Some(e) = input.get("exh").and_then(|x| x.as_array()) {
                    let a = e.first().and_then(|x| x.as_u64()).unwrap_or(0);
                    let b = e.get(1).and_then(|x| x.as_u64()).unwrap_or(0);
                    if a <= 3 {
                        let be = b.to_be_bytes();
                        return check_area(&be[8 - a as usize..], true, false, ctx);
                    }
                    if (100..200).contains(&a) {
                        let len = (a - 100) as usize;
                        let mut x = b;
                        let mut els = vec![];
                        for i in 0..len {
                            els.push(fixed_shape((x % SHAPES as u64) as usize, i));
                            x /= SHAPES as u64;
                        }
                        return check_encode(&els, false, ctx);
                    }
                    if a >= 200 {
                        let shape = (a - 200) as usize;
                        let k = (b / 2) as usize;
                        let mut els = vec![El::Noop; k];
                        if b % 2 == 1 {
                            els.insert(0, fixed_shape(shape, k));
                        } else {
                            els.push(fixed_shape(shape, k));
                        }
                        return check_encode(&els, false, ctx);
                    }
                }
                Ok(())
            }
        }
    }

    fn describe(&self, tape: &[u8]) -> Value {
        let mut t = Tape::new(tape);
        let mut scratch = Ctx::new(Tier::Quick, 0, &[], "C13");
        match gen_case(&mut t, &mut scratch) {
            Case::Enc(els) => json!({"kind": "enc", "elements": els_json(&els)}),
            Case::Raw(a) => json!({"kind": "raw", "area_hex": hex(&a)}),
        }
    }

    fn rule(&self) -> String {
        "Each tape decodes to ONE case: (a) an element list (short list of 0-5 elements / list whose encoded size is exactly a target in 33..=48 \
         bytes / 1-5 SACK elements with any of the 8 presence patterns of the optional blocks, i.e. far beyond 40 bytes), or (b) a raw option area \
         of 3..=48 bytes built from valid options, EOL bytes and unknown kinds where single kind bytes / length bytes are perturbed, options are \
         shortened and the area is cut at a target length, or (c) a noise area of 0..=40 bytes over an alphabet of kind and length values. \
         Enumerated part: all byte strings of length <= 2 (thorough: <= 3; quick adds the three byte strings whose last byte is one of 16 values), \
         all sequences of <= 4 (thorough 6) element shapes out of 13 (5 fixed kinds + SACK with each presence pattern), and k Noops before/after \
         each shape for k = 0..=44. \
         Encode cases are compared with the reference encoder through try_from_elements, TryFrom<&[TcpOptionElement]> and TcpHeader::set_options \
         (then to_bytes, TcpHeaderSlice, TcpSlice, TcpHeader::from_slice, TcpHeader::read); raw cases drive TcpOptionsIterator::from_slice, \
         try_from_slice, TryFrom<&[u8]>, From<[u8;N]>, set_options_raw and the same header paths step by step against the reference tokenizer. \
         One evaluation = one iterator driven to exhaustion against the reference (items, rest() after every step, stop, three further next() \
         calls) or one encode/convert call compared with the reference. \
         Non-trivial = at least 2 options (elements), or an error/rejection after at least 1 option. Distinct = (enc|raw, sequence of option kinds \
         with SACK block count, Noop runs collapsed, first 5 symbols + length bucket, stop reason end/eol/unknown/size/eos/eos+size resp. \
         padding 0-3 / rejected size bucket)."
            .into()
    }

    fn assumptions(&self) -> Vec<String> {
        vec![
            "Trusted base: the reference option model in c13.rs (encoder, tokenizer, set of true error statements), written from RFC 9293 §3.1, RFC 7323 and RFC 2018; it is checked against itself (tokenize(encode(list)) == list) on every encode case.".into(),
            "SACK elements whose array has a gap (None before Some) have no wire form; the reference encodes the present blocks in order (compaction) and the iteration is expected to return the compacted element.".into(),
            "NotEnoughSpace carries the unpadded number of bytes the elements need (Display text: 'the options would have needed {size} bytes'); for try_from_slice it carries the slice length (doc example).".into(),
            "Where more than one error statement is true of a malformed option (too short for its kind AND illegal length byte) any true statement is accepted. UnexpectedEndOfSlice is accepted with expected_len = the length the kind requires, the legal SACK length byte, 10 for a SACK option in fewer than 10 bytes, or 2 when not even the length byte is present; actual_len must be the number of bytes left from the kind byte on.".into(),
            "An unknown kind must be reported as UnknownId(kind) whatever its length byte says (the crate documents no skipping of unknown options).".into(),
            "After end-of-list, an error, or the last byte, rest() must be empty and next() None (checked three more times); bytes after an EOL byte are never interpreted (RFC 9293: padding).".into(),
            "Derived PartialEq of TcpOptionElement/TcpHeader and TcpHeader::new/field assignment are trusted when comparing results; a failed set_options is not required to leave the header unchanged (undocumented).".into(),
            "Raw areas longer than 40 bytes are only given to TcpOptionsIterator::from_slice (any slice) and to the conversions that must reject them.".into(),
        ]
    }

    fn exhaustive_claim(&self, tier: Tier) -> Option<String> {
        Some(format!(
            "all {} byte strings of length 0..={} as raw option areas; all {} sequences of at most {} element shapes (13 shapes, fixed values); 13 shapes x 45 Noop counts x 2 positions",
            (0..=raw_max_len(tier)).map(|l| 1u64 << (8 * l)).sum::<u64>(),
            raw_max_len(tier),
            (0..=seq_max_len(tier)).map(|l| (SHAPES as u64).pow(l as u32)).sum::<u64>(),
            seq_max_len(tier)
        ))
    }
}
