use crate::engine::Property;

pub mod c01;
pub mod c03;
pub mod c12;
pub mod c12_checks;
pub mod c12_model;
pub mod c12_wrap;
pub mod c13;
pub mod t00;

pub fn all() -> Vec<Box<dyn Property>> {
    vec![
        Box::new(t00::T00),
        Box::new(c01::C01),
        Box::new(c01::C02),
        Box::new(c03::C03),
        Box::new(c12::C12),
        Box::new(c13::C13),
    ]
}

pub fn by_id(id: &str) -> Option<Box<dyn Property>> {
    all().into_iter().find(|p| p.id() == id)
}
