use crate::engine::Property;

pub mod c01;
pub mod c02_fmt;
pub mod c03;
pub mod c04;
pub mod c05;
pub mod c06;
pub mod c07;
pub mod c07_single;
pub mod c08;
pub mod c09;
pub mod c09_gen;
pub mod c10;
pub mod c10_build;
pub mod c10_cfg;
pub mod c10_ref;
pub mod c11;
pub mod c11_model;
pub mod c11_wire;
pub mod c12;
pub mod c12_checks;
pub mod c12_model;
pub mod c12_wrap;
pub mod c13;
pub mod c14;
pub mod c14_build;
pub mod c14_mem;
pub mod c14_misc;
pub mod c14_net;
pub mod c14_tr;
pub mod c15;
pub mod c15_adapt;
pub mod c15_layout;
pub mod c16;
pub mod c16_limited;
pub mod c17;
pub mod c17_chk;
pub mod c17_ref;
pub mod t00;
pub mod valgen;

pub fn all() -> Vec<Box<dyn Property>> {
    vec![
        Box::new(t00::T00),
        Box::new(c01::C01),
        Box::new(c01::C02),
        Box::new(c03::C03),
        Box::new(c04::C04),
        Box::new(c05::C05),
        Box::new(c06::C06),
        Box::new(c07::C07),
        Box::new(c08::C08),
        Box::new(c09::C09),
        Box::new(c10::C10),
        Box::new(c11::C11),
        Box::new(c12::C12),
        Box::new(c13::C13),
        Box::new(c14::C14),
        Box::new(c15::C15),
        Box::new(c16::C16),
        Box::new(c17::C17),
    ]
}

pub fn by_id(id: &str) -> Option<Box<dyn Property>> {
    all().into_iter().find(|p| p.id() == id)
}
