//! C16, `LimitedReader` as an object with a history: "a length-limited reader never pulls more bytes
//! from the underlying reader than its limit allows" must hold for every sequence of calls, not only
//! for the one pass `read_limited` / `IpHeaders::read` make over it.
//!
//! A history is a limit, an underlying stream length and a list of operations (`read_exact(n)`,
//! `start_layer(layer)`); it is run against the crate's `LimitedReader` over a counting reader and
//! against a four-line model written from the field documentation ("maximum len that still can be read
//! on the current layer", "len that was read on the current layer", "offset of the layer that is
//! currently read"). After every operation: the bytes pulled from the underlying reader never exceed the
//! limit; a request that does not fit is answered with a length error that pulls nothing and changes
//! nothing (`required_len` = read so far on the layer + requested, `len` = what the layer has, layer /
//! offset / source as set up); a request that fits delivers exactly the next bytes of the stream; all
//! accessors equal the model. After an I/O error of the underlying reader the history ends (how much a
//! failed `read_exact` consumed is unspecified by `std`, every real caller gives up there).

use crate::engine::*;
use crate::tape::*;
use etherparse::err::io::LimitedReadError;
use etherparse::err::Layer;
use etherparse::io::LimitedReader;
use etherparse::LenSource;
use serde_json::{json, Value};
use std::cell::Cell;
use std::rc::Rc;

#[derive(Clone, Debug)]
pub enum Op {
    Read(usize),
    Start(u8),
}

#[derive(Clone, Debug)]
pub struct Hist {
    pub limit: usize,
    pub stream: usize,
    pub offset: usize,
    pub source: u8,
    pub ops: Vec<Op>,
}

fn layer(i: u8) -> Layer {
    [Layer::Ipv4Header, Layer::IpAuthHeader, Layer::Ipv6ExtHeader, Layer::Ipv6FragHeader, Layer::TcpHeader][i as usize % 5]
}

fn source(i: u8) -> LenSource {
    [LenSource::Slice, LenSource::Ipv4HeaderTotalLen, LenSource::Ipv6HeaderPayloadLen, LenSource::UdpHeaderLen][i as usize % 4]
}

struct Counting {
    pos: usize,
    len: usize,
    pulled: Rc<Cell<usize>>,
}

impl std::io::Read for Counting {
    fn read(&mut self, buf: &mut [u8]) -> std::io::Result<usize> {
        let n = buf.len().min(self.len - self.pos);
        for (i, b) in buf[..n].iter_mut().enumerate() {
            *b = ((self.pos + i) as u8).wrapping_mul(37).wrapping_add(11);
        }
        self.pos += n;
        self.pulled.set(self.pulled.get() + n);
        Ok(n)
    }
}

impl Hist {
    pub fn to_json(&self) -> Value {
        json!({"mode": "limited-history", "limit": self.limit, "stream": self.stream, "offset": self.offset, "source": self.source,
               "ops": self.ops.iter().map(|o| match o { Op::Read(n) => json!({"read_exact": n}), Op::Start(l) => json!({"start_layer": l}) }).collect::<Vec<_>>()})
    }
    pub fn from_json(v: &Value) -> Hist {
        let n = |k: &str| v.get(k).and_then(|x| x.as_u64()).unwrap_or(0) as usize;
        Hist {
            limit: n("limit"),
            stream: n("stream"),
            offset: n("offset"),
            source: n("source") as u8,
            ops: v.get("ops").and_then(|x| x.as_array()).map(|a| a.iter().map(|o| if let Some(r) = o.get("read_exact") { Op::Read(r.as_u64().unwrap_or(0) as usize) } else { Op::Start(o.get("start_layer").and_then(|x| x.as_u64()).unwrap_or(0) as u8) }).collect()).unwrap_or_default(),
        }
    }
    pub fn gen(t: &mut Tape) -> Hist {
        let limit = if t.chance(1, 8) { t.below(4) as usize } else { t.below(40) as usize };
        // mostly enough data behind the limit, sometimes less (the underlying reader runs dry first)
        let stream = if t.chance(1, 5) { t.below(limit + 2) as usize } else { limit + t.below(24) as usize };
        let n = 1 + t.below(10) as usize;
        let mut ops = vec![];
        for _ in 0..n {
            if t.chance(1, 4) {
                ops.push(Op::Start(t.below(5) as u8));
            } else {
                // biased to requests around what is left
                let r = match t.below(4) {
                    0 => t.below(4) as usize,
                    1 => limit.saturating_sub(t.below(4) as usize),
                    2 => limit + 1 + t.below(3) as usize,
                    _ => t.below(limit + 4) as usize,
                };
                ops.push(Op::Read(r));
            }
        }
        Hist { limit, stream, offset: t.below(64) as usize, source: t.below(4) as u8, ops }
    }
}

pub fn check_history(h: &Hist, ctx: &mut Ctx) -> Result<(), Failure> {
    let fail = |ctx: &mut Ctx, clause: &str, step: usize, detail: String| -> Result<(), Failure> {
        ctx.fail(Failure::new(format!("C16|LimitedReader|history|{}", clause), clause.to_string(), format!("step {} of {:?}: {}", step, h.ops, detail), h.to_json()))
    };
    let pulled = Rc::new(Cell::new(0usize));
    let mut lr = LimitedReader::new(Counting { pos: 0, len: h.stream, pulled: pulled.clone() }, h.limit, source(h.source), h.offset, layer(0));
    // model
    let (mut max_len, mut read_len, mut off, mut lay) = (h.limit, 0usize, h.offset, layer(0));
    let mut consumed = 0usize;
    let mut rejected_before = false;
    for (i, op) in h.ops.iter().enumerate() {
        ctx.eval(1);
        match op {
            Op::Start(l) => {
                let r = catch(|| lr.start_layer(layer(*l)));
                if let Err(p) = r {
                    return fail(ctx, "panic", i, p);
                }
                off += read_len;
                max_len -= read_len;
                read_len = 0;
                lay = layer(*l);
            }
            Op::Read(n) => {
                let mut buf = vec![0x5au8; *n];
                let before = pulled.get();
                let r = match catch(|| lr.read_exact(&mut buf)) {
                    Ok(r) => r,
                    Err(p) => return fail(ctx, "panic", i, p),
                };
                let fits = max_len - read_len >= *n;
                match (r, fits) {
                    (Err(LimitedReadError::Len(e)), false) => {
                        if pulled.get() != before {
                            return fail(ctx, "rejected-request-pulls-bytes", i, format!("{} bytes were pulled by a request that was rejected for its length", pulled.get() - before));
                        }
                        // the error names the layer, its offset and the source of the limit; its two
                        // lengths may count from the layer start (needed so far + requested vs. what the
                        // layer has) or from the reader position (requested vs. what is left) - both are
                        // true statements with the same deficit
                        let deficit = read_len + n - max_len;
                        let lens_ok = e.required_len > e.len && e.required_len - e.len == deficit && (e.len == max_len || e.len == max_len - read_len);
                        let want = (source(h.source), lay, off);
                        let got = (e.len_source, e.layer, e.layer_start_offset);
                        if want != got || !lens_ok {
                            return fail(ctx, "len-error-describes-the-layer", i, format!("required_len {} / len {} with (len_source, layer, layer_start_offset) = {:?}; the layer has {} bytes, {} read so far, {} requested, set up as {:?}", e.required_len, e.len, got, max_len, read_len, n, want));
                        }
                        rejected_before = true;
                    }
                    (Ok(()), true) => {
                        if pulled.get() - before != *n {
                            return fail(ctx, "pulls-exactly-the-request", i, format!("{} bytes pulled for a request of {}", pulled.get() - before, n));
                        }
                        let want: Vec<u8> = (0..*n).map(|k| ((consumed + k) as u8).wrapping_mul(37).wrapping_add(11)).collect();
                        if buf != want {
                            return fail(ctx, "delivers-the-next-bytes", i, format!("got {} want {}", hex(&buf), hex(&want)));
                        }
                        consumed += n;
                        read_len += n;
                        if rejected_before {
                            ctx.class("limited-history:read-after-a-rejected-request");
                        }
                    }
                    (Err(LimitedReadError::Io(_)), true) if consumed + n > h.stream => {
                        // the underlying reader ran dry inside the limit: the history ends here
                        ctx.class("limited-history:underlying-eof");
                        break;
                    }
                    (r, fits) => {
                        return fail(ctx, if fits { "request-inside-the-limit-fails" } else { "request-beyond-the-limit-not-rejected" }, i, format!("read_exact({}) with {} of {} bytes of the layer used returned {:?}", n, read_len, max_len, r.map_err(|e| format!("{:?}", e))));
                    }
                }
            }
        }
        if pulled.get() > h.limit {
            return fail(ctx, "pulls-more-than-the-limit", i, format!("{} bytes pulled from the underlying reader, limit {}", pulled.get(), h.limit));
        }
        // the unambiguous accessors (where the current layer starts, which layer, which length source);
        // how the budget is split between max_len() and read_len() is not constrained - the budget itself
        // is checked behaviourally above
        let got = (lr.layer_offset(), lr.layer(), lr.len_source());
        let want = (off, lay, source(h.source));
        if got != want {
            return fail(ctx, "accessors-follow-the-documented-state", i, format!("(layer_offset, layer, len_source) = {:?}, documented state {:?}", got, want));
        }
    }
    let reads = h.ops.iter().filter(|o| matches!(o, Op::Read(_))).count();
    if rejected_before && reads >= 3 {
        let sig = format!("lim{}|{}", h.limit.min(8), h.ops.iter().map(|o| match o { Op::Read(n) => if *n > h.limit { "R+" } else { "r" }, Op::Start(_) => "S" }).collect::<Vec<_>>().join(""));
        ctx.nontrivial(&format!("limited-history|{}", sig), || h.to_json());
    }
    ctx.class("limited-history");
    Ok(())
}

/// all histories of up to 4 operations over small limits (requests 0..=limit+1, one layer change)
pub fn enumerate(shard: u64, nshards: u64, ctx: &mut Ctx) -> Result<(), Failure> {
    let mut idx = 0u64;
    for limit in 0..=5usize {
        let mut alphabet: Vec<Op> = (0..=limit + 1).map(Op::Read).collect();
        alphabet.push(Op::Start(2));
        let a = alphabet.len();
        for len in 1..=4u32 {
            for code in 0..(a as u64).pow(len) {
                idx += 1;
                if idx % nshards != shard {
                    continue;
                }
                let mut c = code;
                let mut ops = vec![];
                for _ in 0..len {
                    ops.push(alphabet[(c % a as u64) as usize].clone());
                    c /= a as u64;
                }
                for stream in [limit + 3, limit.saturating_sub(1)] {
                    check_history(&Hist { limit, stream, offset: 7, source: (limit % 4) as u8, ops: ops.clone() }, ctx)?;
                }
            }
        }
    }
    Ok(())
}
