//! C11 reference model of IP reassembly (written from RFC 791 §3.2 / RFC 8200 §4.5 and the
//! documentation of `etherparse::defrag`): per stream the set of filled byte ranges, the announced
//! end and the generation of the data; plus the bookkeeping of what is *not* documented (ambiguous
//! ends, which timestamp `retain` judges), where the model stops predicting ("loose"). A rejected
//! fragment leaves the state untouched and the model strict.

use std::collections::BTreeSet;

/// state of one reassembly
#[derive(Clone, Debug, Default)]
pub struct St {
    /// generation (payload pattern) of the buffered data; None = no state at all
    pub gen: Option<u8>,
    /// filled byte ranges: sorted, non-empty, neither overlapping nor touching
    pub filled: Vec<(u32, u32)>,
    /// end announced by the accepted last fragment
    pub end: Option<u32>,
    /// largest offset + length of any accepted fragment (also of fragments without data)
    pub max_e: u32,
    /// timestamps of the accepted deliveries (bit set) and the latest of them
    pub ts_mask: u8,
    pub last_ts: u8,
    // statistics of this reassembly (for the non-trivial rule only)
    /// start offsets of accepted, not completely redundant fragments in arrival order
    pub arrivals: Vec<u32>,
    pub dup: bool,
    pub overlap: bool,
    /// other streams that had a fragment accepted while this reassembly was open (bit set)
    pub others: u8,
    /// a recycled data buffer was available when the reassembly started
    pub reuse: bool,
}

impl St {
    pub fn has_state(&self) -> bool {
        self.gen.is_some()
    }
    fn covers(filled: &[(u32, u32)], a: u32, b: u32) -> bool {
        a == b || filled.iter().any(|r| r.0 <= a && b <= r.1)
    }
    fn insert(filled: &mut Vec<(u32, u32)>, a: u32, b: u32) {
        if a == b {
            return;
        }
        let (mut a, mut b) = (a, b);
        let mut out = Vec::with_capacity(filled.len() + 1);
        for r in filled.iter() {
            if r.1 < a || b < r.0 {
                out.push(*r);
            } else {
                a = a.min(r.0);
                b = b.max(r.1);
            }
        }
        out.push((a, b));
        out.sort();
        *filled = out;
    }
}

#[derive(Clone, Debug, PartialEq)]
pub enum Core {
    /// offset 0 and no more fragments: not a fragment at all
    PassThrough,
    /// unaligned / oversized: an error in every state
    StateErr,
    /// conflicts with the end announced earlier
    Conflict { prev: u32, cur: u32 },
    /// the documentation does not decide the verdict
    Ambiguous(&'static str),
    /// consistent fragment; `completes` = Some(end) iff it supplies the last missing byte
    Accept { completes: Option<u32> },
}

/// what the model expects from one delivery
#[derive(Clone, Debug)]
pub struct Exp {
    pub too_big: bool,
    pub unaligned: bool,
    /// strict expectation; for a loose stream the expectation of the hypothesis "errors leave the
    /// stream untouched, retain judges the latest timestamp" (measured only)
    pub core: Core,
    /// the stream was loose before this delivery
    pub loose: bool,
    pub shadow_valid: bool,
}

impl Exp {
    /// what the generator (which has no crate to ask) assumes: does this delivery complete the stream?
    pub fn assumed_completion(&self) -> bool {
        !(self.too_big || self.unaligned) && (!self.loose || self.shadow_valid) && matches!(self.core, Core::Accept { completes: Some(_) })
    }
}

#[derive(Clone, Debug, Default)]
pub struct Reasm {
    /// strict state, or (when `loose && shadow_valid`) the state under the measured hypothesis
    pub st: St,
    pub loose: bool,
    pub shadow_valid: bool,
    /// ends announced by any last fragment / generations / timestamps delivered since the last reset
    pub ends: BTreeSet<u32>,
    pub gens: BTreeSet<u8>,
    pub seen_ts: u8,
    /// incremented whenever the (assumed) reassembly state is released
    pub epoch: u32,
}

#[derive(PartialEq)]
pub enum Retained {
    NoState,
    Kept,
    Dropped,
    Ambiguous,
}

impl Reasm {
    pub fn has_any_state(&self) -> bool {
        self.loose || self.st.has_state()
    }

    pub fn reset(&mut self) {
        let epoch = self.epoch + 1;
        *self = Reasm::default();
        self.epoch = epoch;
    }

    fn go_loose(&mut self, shadow_valid: bool) {
        self.loose = true;
        self.shadow_valid = shadow_valid;
    }

    /// the hypothesis released its state but the real stream may not have
    fn shadow_release(&mut self) {
        self.st = St::default();
        self.epoch += 1;
    }

    fn core_of(st: &St, gen: u8, off: u32, len: u32, mf: bool) -> Core {
        let e = off + len;
        if let Some(g0) = st.gen {
            if g0 != gen {
                // different data for the same key while a reassembly is open: overlap order would matter
                return Core::Ambiguous("generation-mix");
            }
        }
        if let Some(end) = st.end {
            if e > end || (!mf && e != end) {
                return Core::Conflict { prev: end, cur: e };
            }
            if mf && e == end {
                return Core::Ambiguous("non-last-fragment-ends-at-end");
            }
        } else if !mf && st.max_e > e {
            return Core::Ambiguous("end-announced-below-buffered-data");
        }
        let end = if mf { st.end } else { Some(e) };
        let mut f = st.filled.clone();
        St::insert(&mut f, off, e);
        Core::Accept { completes: end.filter(|x| St::covers(&f, 0, *x)) }
    }

    pub fn expect(&self, gen: u8, off: u32, len: u32, mf: bool) -> Exp {
        let e = off + len;
        let pass = off == 0 && !mf;
        let too_big = !pass && e > 65_535;
        let unaligned = !pass && mf && len % 8 != 0;
        let core = if pass {
            Core::PassThrough
        } else if too_big || unaligned {
            Core::StateErr
        } else if self.loose && !self.shadow_valid {
            Core::Ambiguous("no-hypothesis")
        } else {
            Reasm::core_of(&self.st, gen, off, len, mf)
        };
        Exp { too_big, unaligned, core, loose: self.loose, shadow_valid: self.shadow_valid }
    }

    /// record what a delivery contributes to the loose rule (any payload must be explainable by it)
    pub fn note_loose(&mut self, gen: u8, off: u32, len: u32, mf: bool) {
        self.gens.insert(gen);
        if !mf {
            self.ends.insert(off + len);
        }
    }

    fn apply(st: &mut St, gen: u8, off: u32, len: u32, mf: bool, ts: u8) {
        let e = off + len;
        st.gen = Some(gen);
        if St::covers(&st.filled, off, e) && len > 0 {
            st.dup = true;
        } else {
            if st.filled.iter().any(|r| r.0 < e && off < r.1) {
                st.overlap = true;
            }
            if st.arrivals.len() < 64 && len > 0 {
                st.arrivals.push(off);
            }
        }
        St::insert(&mut st.filled, off, e);
        st.max_e = st.max_e.max(e);
        if !mf {
            st.end = Some(e);
        }
        st.ts_mask |= 1 << (ts & 7);
        st.last_ts = ts & 7;
    }

    /// Update the model with a delivery. `completed`: the crate returned a (sound) payload — for the
    /// generator: `exp.assumed_completion()`. Returns the statistics of a reassembly that completed
    /// in strict mode.
    #[allow(clippy::too_many_arguments)]
    pub fn commit(&mut self, gen: u8, off: u32, len: u32, mf: bool, ts: u8, exp: &Exp, completed: bool) -> Option<St> {
        if matches!(exp.core, Core::PassThrough) {
            return None;
        }
        if exp.too_big || exp.unaligned {
            // A rejected fragment must not influence what is returned later ("inconsistent fragments are
            // rejected ... the original payload is returned on the delivery that supplies the last
            // missing byte and nothing before"): the stream state stays exactly as it was. Only the
            // timestamp is remembered, because which timestamp `retain` judges is not documented.
            if self.has_any_state() {
                self.seen_ts |= 1 << (ts & 7);
                if !self.loose {
                    self.st.ts_mask |= 1 << (ts & 7);
                }
            }
            return None;
        }
        self.note_loose(gen, off, len, mf);
        self.seen_ts |= 1 << (ts & 7);
        if !self.loose {
            match &exp.core {
                // rejected: state untouched (see above)
                Core::Conflict { .. } => self.st.ts_mask |= 1 << (ts & 7),
                Core::Ambiguous(_) => {
                    self.go_loose(false);
                    if completed {
                        self.reset();
                    }
                }
                Core::Accept { completes } => {
                    Reasm::apply(&mut self.st, gen, off, len, mf, ts);
                    if completes.is_some() {
                        let fin = std::mem::take(&mut self.st);
                        self.reset();
                        return Some(fin);
                    }
                }
                Core::PassThrough | Core::StateErr => {}
            }
            None
        } else {
            if completed {
                self.reset();
                return None;
            }
            if self.shadow_valid {
                match &exp.core {
                    Core::Conflict { .. } => {}
                    Core::Accept { completes: None } => Reasm::apply(&mut self.st, gen, off, len, mf, ts),
                    // the hypothesis expected a payload here and none came (or it has no answer)
                    _ => self.shadow_valid = false,
                }
            }
            None
        }
    }

    pub fn retain(&mut self, keep: u8) -> Retained {
        if !self.has_any_state() {
            return Retained::NoState;
        }
        if !self.loose {
            let seen = self.st.ts_mask;
            if seen & keep == seen {
                Retained::Kept
            } else if seen & keep == 0 {
                self.reset();
                Retained::Dropped
            } else {
                // first and latest timestamp are judged differently: which one counts is not documented
                self.go_loose(true);
                if keep & (1 << self.st.last_ts) == 0 {
                    self.shadow_release();
                }
                Retained::Ambiguous
            }
        } else if self.seen_ts & keep == 0 {
            // whatever the stream's timestamp is, it is not kept
            self.reset();
            Retained::Dropped
        } else {
            if self.shadow_valid && self.st.has_state() && keep & (1 << self.st.last_ts) == 0 {
                self.shadow_release();
            }
            Retained::Ambiguous
        }
    }
}

/// all streams of a history + what the pool holds in reserve (for classification only)
#[derive(Clone, Debug)]
pub struct PoolModel {
    pub streams: Vec<Reasm>,
    /// payload vecs handed out and not yet given back (what `ReturnBuf` can choose from), capped at 8
    pub held: usize,
    /// recycled data buffers the pool can reuse for the next new stream
    pub free_bufs: usize,
}

impl PoolModel {
    pub fn new(n: usize) -> PoolModel {
        PoolModel { streams: vec![Reasm::default(); n], held: 0, free_bufs: 0 }
    }

    pub fn expect_frag(&self, s: usize, gen: u8, off: u32, len: u32, mf: bool) -> Exp {
        self.streams[s].expect(gen, off, len, mf)
    }

    #[allow(clippy::too_many_arguments)]
    pub fn commit_frag(&mut self, s: usize, gen: u8, off: u32, len: u32, mf: bool, ts: u8, exp: &Exp, completed: bool) -> Option<St> {
        let had_state = self.streams[s].has_any_state();
        let accepted = !(exp.too_big || exp.unaligned) && matches!(exp.core, Core::Accept { .. });
        let fin = self.streams[s].commit(gen, off, len, mf, ts, exp, completed);
        if accepted {
            for (o, r) in self.streams.iter_mut().enumerate() {
                if o != s && r.st.has_state() {
                    r.st.others |= 1 << s;
                }
            }
            if !had_state {
                if self.free_bufs > 0 {
                    self.free_bufs -= 1;
                    self.streams[s].st.reuse = true;
                }
            }
        } else if !had_state && (exp.too_big || exp.unaligned) && self.free_bufs == 0 {
            // the buffer allocated for the rejected first fragment goes to the reserve
            self.free_bufs = 1;
        }
        if completed {
            self.held = (self.held + 1).min(8);
        }
        fin
    }

    pub fn unfrag(&mut self) {}

    pub fn return_buf(&mut self) {
        if self.held > 0 {
            self.held -= 1;
            self.free_bufs += 1;
        }
    }

    /// returns (streams certainly dropped, streams in the undocumented case)
    pub fn retain(&mut self, keep: u8) -> (usize, usize) {
        let (mut d, mut a) = (0, 0);
        for r in self.streams.iter_mut() {
            match r.retain(keep) {
                Retained::Dropped => {
                    d += 1;
                    self.free_bufs += 1;
                }
                Retained::Ambiguous => a += 1,
                _ => {}
            }
        }
        (d, a)
    }
}
