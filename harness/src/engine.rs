//! Generic engine: property trait, per-case context, worker/driver processes, crash attribution,
//! tape ddmin, replay files, known findings, evidence writer.

use crate::tape::{fnv64, hex, unhex};
use proptest::strategy::{Strategy, ValueTree};
use proptest::test_runner::{Config, RngSeed, TestCaseError, TestError, TestRunner};
use serde_json::{json, Value};
use std::cell::RefCell;
use std::collections::{BTreeMap, BTreeSet};
use std::io::Write;
use std::path::{Path, PathBuf};
use std::process::{Command, Stdio};
use std::time::{Duration, Instant};

#[derive(Clone, Copy, PartialEq, Eq, Debug)]
pub enum Tier {
    Quick,
    Thorough,
}

impl Tier {
    pub fn name(self) -> &'static str {
        match self {
            Tier::Quick => "quick",
            Tier::Thorough => "thorough",
        }
    }
    pub fn parse(s: &str) -> Option<Tier> {
        match s {
            "quick" => Some(Tier::Quick),
            "thorough" => Some(Tier::Thorough),
            _ => None,
        }
    }
    /// `q` for quick, `t` for thorough.
    pub fn pick<T>(self, q: T, t: T) -> T {
        match self {
            Tier::Quick => q,
            Tier::Thorough => t,
        }
    }
}

/// One oracle failure. `signature` identifies the *kind* of failure (entry point, layer, oracle
/// clause, structural shape) and is what known findings are keyed on.
#[derive(Clone, Debug)]
pub struct Failure {
    pub signature: String,
    pub clause: String,
    pub detail: String,
    /// concrete input understood by `Property::replay`
    pub input: Value,
}

impl Failure {
    pub fn new(signature: impl Into<String>, clause: impl Into<String>, detail: impl Into<String>, input: Value) -> Failure {
        Failure {
            signature: signature.into(),
            clause: clause.into(),
            detail: detail.into(),
            input,
        }
    }
}

pub trait Property: Sync {
    fn id(&self) -> &'static str;
    /// maximum tape length generated
    fn tape_len(&self) -> usize {
        512
    }
    /// number of generated (tape) cases for the tier, over all workers
    fn cases(&self, tier: Tier) -> u64;
    /// run one generated case
    fn run_tape(&self, tape: &[u8], ctx: &mut Ctx) -> Result<(), Failure>;
    /// enumerated sub-domain, shard `shard` of `nshards` (default: none)
    fn exhaustive(&self, _tier: Tier, _shard: u64, _nshards: u64, _ctx: &mut Ctx) -> Result<(), Failure> {
        Ok(())
    }
    /// re-run the oracle on a concrete input stored in a replay file (`Failure::input`)
    fn replay(&self, input: &Value, ctx: &mut Ctx) -> Result<(), Failure>;
    /// concrete description of what a tape decodes to (informational, for crash replays)
    fn describe(&self, _tape: &[u8]) -> Value {
        Value::Null
    }
    /// how cases are generated and what makes one non-trivial / distinct
    fn rule(&self) -> String;
    fn assumptions(&self) -> Vec<String>;
    /// Some(text) if the tier enumerates a finite sub-domain completely
    fn exhaustive_claim(&self, _tier: Tier) -> Option<String> {
        None
    }
    /// true if `exhaustive_claim` covers the property's whole quantified domain (as stated in its
    /// text); otherwise the claim is reported as `exhaustive_subdomains` only
    fn exhaustive_is_whole_domain(&self, _tier: Tier) -> bool {
        false
    }
    /// evidence level (EVIDENCE.schema.json)
    fn level(&self) -> &'static str {
        "exploration"
    }
    /// also run the generated cases under the `release` profile binary (C01: real out-of-bounds reads
    /// must be executed to hit a guard page instead of a debug check)
    fn also_release(&self) -> bool {
        false
    }
    /// a case that provably does not terminate (confirmed in fresh processes) is a violation of this
    /// property (C02: "never a hang"); elsewhere it makes the check inconclusive (exit 2)
    fn hang_is_violation(&self) -> bool {
        false
    }
    /// extra work done by the driver after the workers (e.g. libFuzzer campaign); returns extra coverage keys
    fn post(&self, _tier: Tier, _seed: u64, _root: &Path) -> Result<Value, Failure> {
        Ok(Value::Null)
    }
}

#[derive(Clone, Debug)]
pub struct KnownFinding {
    pub property: String,
    pub signature: String,
    pub status: String,
    pub what: String,
}

pub fn load_known(root: &Path) -> Vec<KnownFinding> {
    let p = root.join("known_findings.json");
    let mut out = vec![];
    if let Ok(s) = std::fs::read_to_string(&p) {
        if let Ok(v) = serde_json::from_str::<Value>(&s) {
            if let Some(a) = v.get("findings").and_then(|x| x.as_array()) {
                for e in a {
                    out.push(KnownFinding {
                        property: e["property"].as_str().unwrap_or("").to_string(),
                        signature: e["signature"].as_str().unwrap_or("").to_string(),
                        status: e["status"].as_str().unwrap_or("").to_string(),
                        what: e["what"].as_str().unwrap_or("").to_string(),
                    });
                }
            }
        }
    }
    out
}

/// Per-worker accumulation of what was explored.
pub struct Ctx {
    pub tier: Tier,
    pub seed: u64,
    /// false while proptest is shrinking a failure (the closure re-runs; do not count twice)
    pub counting: bool,
    pub evaluations: u64,
    pub cases: u64,
    pub nontrivial: BTreeSet<u64>,
    pub distribution: BTreeMap<String, u64>,
    pub samples: Vec<Value>,
    pub max_samples: usize,
    known: BTreeSet<String>,
    pub known_hits: BTreeMap<String, u64>,
    cur: Option<CurFile>,
}

impl Ctx {
    pub fn new(tier: Tier, seed: u64, known: &[KnownFinding], prop: &str) -> Ctx {
        Ctx {
            tier,
            seed,
            counting: true,
            evaluations: 0,
            cases: 0,
            nontrivial: BTreeSet::new(),
            distribution: BTreeMap::new(),
            samples: vec![],
            max_samples: 6,
            known: known
                .iter()
                .filter(|k| k.property == prop && k.status == "known")
                .map(|k| k.signature.clone())
                .collect(),
            known_hits: BTreeMap::new(),
            cur: None,
        }
    }

    /// count `n` oracle evaluations
    #[inline]
    pub fn eval(&mut self, n: u64) {
        if self.counting {
            self.evaluations += n;
        }
    }

    /// count a generator / outcome class for the distribution table
    #[inline]
    pub fn class(&mut self, label: &str) {
        if self.counting {
            if let Some(c) = self.distribution.get_mut(label) {
                *c += 1;
            } else {
                self.distribution.insert(label.to_string(), 1);
            }
        }
    }

    /// record a non-trivial case by its distinctness signature; `sample` is only evaluated for the
    /// first few new signatures
    #[inline]
    pub fn nontrivial(&mut self, sig: &str, sample: impl FnOnce() -> Value) {
        if self.counting {
            let h = fnv64(sig.as_bytes());
            if self.nontrivial.insert(h) && self.samples.len() < self.max_samples {
                // spread samples: take the 1st, and then signatures hashing into a sparse set
                if self.samples.len() < 2 || h % 7 == 0 {
                    self.samples.push(sample());
                }
            }
        }
    }

    /// Report an oracle failure. A failure whose signature is a listed known finding is counted and
    /// tolerated (returns Ok so the exploration continues); anything else is returned as Err.
    pub fn fail(&mut self, f: Failure) -> Result<(), Failure> {
        if self.known.contains(&f.signature) {
            if self.counting {
                *self.known_hits.entry(f.signature.clone()).or_insert(0) += 1;
            }
            Ok(())
        } else {
            Err(f)
        }
    }

    pub fn is_known(&self, sig: &str) -> bool {
        self.known.contains(sig)
    }

    /// marker for the enumerated part so that a crash can be attributed
    #[inline]
    pub fn mark_exh(&mut self, a: u64, b: u64) {
        if let Some(c) = &mut self.cur {
            c.write_exh(a, b);
        }
    }
}

// ------------------------------------------------------------------------------------------------
// current step (which entry point is running): printed by the panic hook and by the fatal-signal
// handler so that a crash can be attributed

static mut STEP_BUF: [u8; 160] = [0; 160];
static STEP_LEN: std::sync::atomic::AtomicUsize = std::sync::atomic::AtomicUsize::new(0);

/// Record the name of the step that is about to run (worker processes are single-threaded).
#[inline]
pub fn set_step(name: &str) {
    let n = name.len().min(160);
    unsafe {
        std::ptr::copy_nonoverlapping(name.as_ptr(), std::ptr::addr_of_mut!(STEP_BUF) as *mut u8, n);
    }
    STEP_LEN.store(n, std::sync::atomic::Ordering::Relaxed);
}

fn current_step() -> String {
    let n = STEP_LEN.load(std::sync::atomic::Ordering::Relaxed);
    let b = unsafe { std::slice::from_raw_parts(std::ptr::addr_of!(STEP_BUF) as *const u8, n) };
    String::from_utf8_lossy(b).to_string()
}

extern "C" fn fatal_signal_handler(sig: libc::c_int) {
    // async-signal-safe: write(2) only, then fall back to the default action
    unsafe {
        let pre = b"\nEPVERIF-SIGNAL step=";
        libc::write(2, pre.as_ptr() as *const libc::c_void, pre.len());
        let n = STEP_LEN.load(std::sync::atomic::Ordering::Relaxed);
        libc::write(2, std::ptr::addr_of!(STEP_BUF) as *const libc::c_void, n);
        libc::write(2, b"\n".as_ptr() as *const libc::c_void, 1);
        libc::signal(sig, libc::SIG_DFL);
        libc::raise(sig);
    }
}

pub fn install_signal_handlers() {
    unsafe {
        for s in [libc::SIGSEGV, libc::SIGBUS, libc::SIGILL, libc::SIGFPE] {
            libc::signal(s, fatal_signal_handler as *const () as usize);
        }
    }
}

// ------------------------------------------------------------------------------------------------
// panic capture

thread_local! {
    static LAST_PANIC: RefCell<Option<String>> = const { RefCell::new(None) };
}

pub fn install_panic_hook() {
    install_signal_handlers();
    std::panic::set_hook(Box::new(|info| {
        let loc = info
            .location()
            .map(|l| format!("{}:{}", l.file(), l.line()))
            .unwrap_or_else(|| "?".into());
        let msg = if let Some(s) = info.payload().downcast_ref::<&str>() {
            s.to_string()
        } else if let Some(s) = info.payload().downcast_ref::<String>() {
            s.clone()
        } else {
            "<non-string panic payload>".to_string()
        };
        let full = format!("{} @ {}", msg, loc);
        // non-unwinding panics abort right after the hook, so every panic is made visible on stderr
        // (bounded: tolerated known findings may panic many times)
        static PRINTED: std::sync::atomic::AtomicU32 = std::sync::atomic::AtomicU32::new(0);
        if PRINTED.fetch_add(1, std::sync::atomic::Ordering::Relaxed) < 40 {
            eprintln!("EPVERIF-PANIC step={} panicked at: {}", current_step(), full);
        }
        LAST_PANIC.with(|p| *p.borrow_mut() = Some(full));
    }));
}

/// Panic hook for in-process fuzzing: records the message for `catch`, prints nothing for caught
/// panics (libFuzzer would otherwise be flooded), keeps the default abort behaviour otherwise.
pub fn install_panic_hook_quiet() {
    let default = std::panic::take_hook();
    std::panic::set_hook(Box::new(move |info| {
        let loc = info.location().map(|l| format!("{}:{}", l.file(), l.line())).unwrap_or_else(|| "?".into());
        let msg = if let Some(s) = info.payload().downcast_ref::<&str>() {
            s.to_string()
        } else if let Some(s) = info.payload().downcast_ref::<String>() {
            s.clone()
        } else {
            "<non-string panic payload>".to_string()
        };
        let full = format!("{} @ {}", msg, loc);
        let nounwind = msg.contains("unsafe precondition") || msg.contains("cannot unwind");
        LAST_PANIC.with(|p| *p.borrow_mut() = Some(full));
        if nounwind {
            eprintln!("EPVERIF-PANIC step={} panicked at: {} @ {}", current_step(), msg, loc);
            default(info);
        }
    }));
}

/// Run `f`, converting an unwinding panic into `Err("message @ file:line")`.
pub fn catch<T>(f: impl FnOnce() -> T) -> Result<T, String> {
    match std::panic::catch_unwind(std::panic::AssertUnwindSafe(f)) {
        Ok(v) => Ok(v),
        Err(_) => Err(LAST_PANIC
            .with(|p| p.borrow_mut().take())
            .unwrap_or_else(|| "panic (no message)".into())),
    }
}

/// location part ("file:line") of a message produced by `catch`
pub fn panic_location(msg: &str) -> String {
    let loc = msg.rsplit(" @ ").next().unwrap_or("?");
    // strip absolute prefix so signatures do not depend on where /repo is
    match loc.find("etherparse/src/") {
        Some(i) => loc[i..].to_string(),
        None => loc.to_string(),
    }
}

// ------------------------------------------------------------------------------------------------
// current-case file (shared mapping; survives the death of the worker)

const CUR_SIZE: usize = 16384;

struct CurFile {
    ptr: *mut u8,
}

unsafe impl Send for CurFile {}

impl CurFile {
    fn create(path: &Path) -> Option<CurFile> {
        use std::os::unix::io::AsRawFd;
        let f = std::fs::OpenOptions::new()
            .read(true)
            .write(true)
            .create(true)
            .truncate(true)
            .open(path)
            .ok()?;
        f.set_len(CUR_SIZE as u64).ok()?;
        let ptr = unsafe {
            libc::mmap(
                std::ptr::null_mut(),
                CUR_SIZE,
                libc::PROT_READ | libc::PROT_WRITE,
                libc::MAP_SHARED,
                f.as_raw_fd(),
                0,
            )
        };
        if ptr == libc::MAP_FAILED {
            return None;
        }
        Some(CurFile { ptr: ptr as *mut u8 })
    }
    // layout: [kind u32][len u32][case counter u64][data]
    fn write_tape(&mut self, tape: &[u8], counter: u64) {
        let n = tape.len().min(CUR_SIZE - 16);
        unsafe {
            std::ptr::copy_nonoverlapping(tape.as_ptr(), self.ptr.add(16), n);
            std::ptr::copy_nonoverlapping(counter.to_le_bytes().as_ptr(), self.ptr.add(8), 8);
            std::ptr::copy_nonoverlapping((n as u32).to_le_bytes().as_ptr(), self.ptr.add(4), 4);
            std::ptr::copy_nonoverlapping(1u32.to_le_bytes().as_ptr(), self.ptr, 4);
        }
    }
    fn write_exh(&mut self, a: u64, b: u64) {
        unsafe {
            std::ptr::copy_nonoverlapping(a.to_le_bytes().as_ptr(), self.ptr.add(16), 8);
            std::ptr::copy_nonoverlapping(b.to_le_bytes().as_ptr(), self.ptr.add(24), 8);
            std::ptr::copy_nonoverlapping(16u32.to_le_bytes().as_ptr(), self.ptr.add(4), 4);
            std::ptr::copy_nonoverlapping(2u32.to_le_bytes().as_ptr(), self.ptr, 4);
        }
    }
    fn write_done(&mut self) {
        unsafe {
            std::ptr::copy_nonoverlapping(3u32.to_le_bytes().as_ptr(), self.ptr, 4);
        }
    }
}

enum CurRecord {
    None,
    Tape(Vec<u8>, u64),
    Exh(u64, u64),
    Done,
}

fn read_cur(path: &Path) -> CurRecord {
    let Ok(b) = std::fs::read(path) else {
        return CurRecord::None;
    };
    if b.len() < 32 {
        return CurRecord::None;
    }
    let kind = u32::from_le_bytes(b[0..4].try_into().unwrap());
    let len = u32::from_le_bytes(b[4..8].try_into().unwrap()) as usize;
    let counter = u64::from_le_bytes(b[8..16].try_into().unwrap());
    match kind {
        1 => CurRecord::Tape(b[16..16 + len.min(b.len() - 16)].to_vec(), counter),
        2 => CurRecord::Exh(
            u64::from_le_bytes(b[16..24].try_into().unwrap()),
            u64::from_le_bytes(b[24..32].try_into().unwrap()),
        ),
        3 => CurRecord::Done,
        _ => CurRecord::None,
    }
}

// ------------------------------------------------------------------------------------------------
// worker

fn replay_value(prop: &dyn Property, f: &Failure, seed: u64, tape: Option<&[u8]>) -> Value {
    let mut v = json!({
        "property": prop.id(),
        "seed": seed,
        "signature": f.signature,
        "oracle_clause": f.clause,
        "detail": f.detail,
        "input": f.input,
    });
    if let Some(t) = tape {
        v["tape_hex"] = Value::String(hex(t));
    }
    v
}

fn write_replay(root: &Path, prop: &str, v: &Value) -> PathBuf {
    let dir = root.join("replays").join(prop);
    let _ = std::fs::create_dir_all(&dir);
    let sig = v["signature"].as_str().unwrap_or("");
    let name = format!("{:016x}.json", fnv64(sig.as_bytes()));
    let p = dir.join(name);
    let _ = std::fs::write(&p, serde_json::to_string_pretty(v).unwrap());
    p
}

/// Run a property on one input with panic capture. A panic inside the harness or the crate on a
/// generated input is a failure of the property being checked (the crate produced no answer).
pub fn run_guarded(prop: &dyn Property, ctx: &mut Ctx, f: impl FnOnce(&mut Ctx) -> Result<(), Failure>, input: impl FnOnce() -> Value) -> Result<(), Failure> {
    match catch(|| f(ctx)) {
        Ok(r) => r,
        Err(msg) => {
            let fl = Failure::new(
                format!("{}|panic|{}", prop.id(), panic_location(&msg)),
                "panic",
                msg,
                input(),
            );
            ctx.fail(fl)
        }
    }
}

pub struct WorkerResult {
    pub value: Value,
}

pub fn worker_main(prop: &dyn Property, tier: Tier, seed: u64, shard: u64, nshards: u64, total_cases: u64, root: &Path, out: &Path, cur: &Path) -> i32 {
    install_panic_hook();
    let known = load_known(root);
    let mut ctx = Ctx::new(tier, seed, &known, prop.id());
    ctx.cur = CurFile::create(cur);
    let t0 = Instant::now();
    let mut violations: Vec<Value> = vec![];

    // 1. enumerated part
    {
        let r = run_guarded(prop, &mut ctx, |c| prop.exhaustive(tier, shard, nshards, c), || json!({"exhaustive_shard": [shard, nshards]}));
        if let Err(f) = r {
            let v = replay_value(prop, &f, seed, None);
            let p = write_replay(root, prop.id(), &v);
            violations.push(json!({"signature": f.signature, "clause": f.clause, "detail": f.detail, "replay": p.to_string_lossy()}));
        }
    }

    // 2. generated part (proptest drives and shrinks the tape)
    let my_cases = total_cases / nshards + if shard < total_cases % nshards { 1 } else { 0 };
    if my_cases > 0 {
        let cfg = Config {
            cases: my_cases.min(u32::MAX as u64) as u32,
            failure_persistence: None,
            rng_seed: RngSeed::Fixed(seed.wrapping_mul(1_000_003).wrapping_add(shard)),
            max_shrink_iters: 50_000,
            max_global_rejects: 1,
            verbose: 0,
            ..Config::default()
        };
        let mut runner = TestRunner::new(cfg);
        let tl = prop.tape_len();
        // lengths: a quarter short tapes (simple packets), the rest up to the full length
        let strat = proptest::prop_oneof![
            1 => proptest::collection::vec(proptest::num::u8::ANY, 0..=tl / 8),
            3 => proptest::collection::vec(proptest::num::u8::ANY, tl / 8..=tl),
        ];
        let ctx_cell = RefCell::new(&mut ctx);
        let failed = RefCell::new(false);
        let res = runner.run(&strat, |tape| {
            let mut g = ctx_cell.borrow_mut();
            let ctx: &mut Ctx = &mut g;
            if *failed.borrow() {
                ctx.counting = false;
            } else {
                ctx.cases += 1;
            }
            let counter = ctx.cases;
            if let Some(c) = &mut ctx.cur {
                c.write_tape(&tape, counter);
            }
            let r = run_guarded(prop, ctx, |c| prop.run_tape(&tape, c), || json!({"tape_hex": hex(&tape)}));
            match r {
                Ok(()) => Ok(()),
                Err(f) => {
                    *failed.borrow_mut() = true;
                    ctx.counting = false;
                    Err(TestCaseError::fail(f.signature))
                }
            }
        });
        drop(ctx_cell);
        ctx.counting = false;
        if let Err(e) = res {
            match e {
                TestError::Fail(_, tape) => {
                    // re-run on the minimal tape to obtain the failure record
                    let r = run_guarded(prop, &mut ctx, |c| prop.run_tape(&tape, c), || json!({"tape_hex": hex(&tape)}));
                    let f = match r {
                        Err(f) => f,
                        Ok(()) => Failure::new(
                            format!("{}|flaky", prop.id()),
                            "flaky",
                            "failure did not reproduce on the shrunk tape",
                            json!({"tape_hex": hex(&tape)}),
                        ),
                    };
                    let v = replay_value(prop, &f, seed, Some(&tape));
                    let p = write_replay(root, prop.id(), &v);
                    violations.push(json!({"signature": f.signature, "clause": f.clause, "detail": f.detail, "replay": p.to_string_lossy()}));
                }
                TestError::Abort(r) => {
                    eprintln!("proptest aborted: {}", r);
                    return 2;
                }
            }
        }
    }
    if let Some(c) = &mut ctx.cur {
        c.write_done();
    }

    let v = json!({
        "shard": shard,
        "evaluations": ctx.evaluations,
        "cases": ctx.cases,
        "nontrivial": ctx.nontrivial.iter().map(|h| format!("{:016x}", h)).collect::<Vec<_>>(),
        "distribution": ctx.distribution,
        "samples": ctx.samples,
        "known_hits": ctx.known_hits,
        "violations": violations,
        "wall_s": t0.elapsed().as_secs_f64(),
    });
    if std::fs::write(out, serde_json::to_string(&v).unwrap()).is_err() {
        return 2;
    }
    0
}

/// `run-tape`: run one tape; exit 0 = pass, 3 = oracle failure (signature on stdout), crash = signal.
pub fn run_tape_main(prop: &dyn Property, tier: Tier, tape: &[u8], root: &Path) -> i32 {
    install_panic_hook();
    let known = load_known(root);
    let mut ctx = Ctx::new(tier, 0, &known, prop.id());
    match run_guarded(prop, &mut ctx, |c| prop.run_tape(tape, c), || json!({"tape_hex": hex(tape)})) {
        Ok(()) => 0,
        Err(f) => {
            println!("{}", serde_json::to_string(&replay_value(prop, &f, 0, Some(tape))).unwrap());
            3
        }
    }
}

/// `replay-file`: exit 0 pass, 3 failure (record on stdout), 4 known finding.
pub fn replay_file_main(prop: &dyn Property, tier: Tier, file: &Path, root: &Path) -> i32 {
    install_panic_hook();
    let known = load_known(root);
    let mut ctx = Ctx::new(tier, 0, &known, prop.id());
    let Ok(s) = std::fs::read_to_string(file) else {
        eprintln!("cannot read {}", file.display());
        return 2;
    };
    let Ok(v) = serde_json::from_str::<Value>(&s) else {
        eprintln!("cannot parse {}", file.display());
        return 2;
    };
    let input = v.get("input").cloned().unwrap_or(Value::Null);
    let r = replay_input(prop, &input, v.get("tape_hex"), &mut ctx);
    match r {
        Ok(()) => {
            if !ctx.known_hits.is_empty() {
                for (k, _) in ctx.known_hits.iter() {
                    println!("KNOWN {}", k);
                }
                4
            } else {
                0
            }
        }
        Err(f) => {
            println!("{}", serde_json::to_string(&replay_value(prop, &f, 0, None)).unwrap());
            3
        }
    }
}

fn replay_input(prop: &dyn Property, input: &Value, tape_hex: Option<&Value>, ctx: &mut Ctx) -> Result<(), Failure> {
    // crash replays found by the driver only have a tape
    let only_tape = input.as_object().map(|o| o.len() == 1 && o.contains_key("tape_hex")).unwrap_or(false);
    if only_tape || input.is_null() {
        let th = if only_tape { input.get("tape_hex") } else { tape_hex };
        let tape = th.and_then(|x| x.as_str()).and_then(unhex).unwrap_or_default();
        run_guarded(prop, ctx, |c| prop.run_tape(&tape, c), || json!({"tape_hex": hex(&tape)}))
    } else {
        run_guarded(prop, ctx, |c| prop.replay(input, c), || input.clone())
    }
}

// ------------------------------------------------------------------------------------------------
// driver

struct Child {
    shard: u64,
    profile: &'static str,
    child: std::process::Child,
    out: PathBuf,
    cur: PathBuf,
    stderr_path: PathBuf,
}

fn exe_for(profile: &str) -> PathBuf {
    // the check script exports both binaries
    let var = if profile == "release" { "EPVERIF_BIN_RELEASE" } else { "EPVERIF_BIN_CHECKED" };
    match std::env::var(var) {
        Ok(p) if !p.is_empty() => PathBuf::from(p),
        _ => std::env::current_exe().unwrap(),
    }
}

fn signal_of(status: &std::process::ExitStatus) -> Option<i32> {
    use std::os::unix::process::ExitStatusExt;
    status.signal()
}

/// Run a child to test one tape. Returns (crashed?, oracle failure record?, stderr tail)
fn child_run_tape(profile: &str, prop: &str, tier: Tier, tape: &[u8], timeout: Duration) -> (bool, Option<Value>, String) {
    let mut c = Command::new(exe_for(profile))
        .args(["run-tape", prop, tier.name(), &hex(tape)])
        .stdin(Stdio::null())
        .stdout(Stdio::piped())
        .stderr(Stdio::piped())
        .spawn()
        .expect("spawn");
    let t0 = Instant::now();
    loop {
        match c.try_wait() {
            Ok(Some(_)) => break,
            Ok(None) => {
                if t0.elapsed() > timeout {
                    let _ = c.kill();
                    let _ = c.wait();
                    return (false, None, "timeout".into());
                }
                std::thread::sleep(Duration::from_millis(2));
            }
            Err(_) => break,
        }
    }
    let o = c.wait_with_output().expect("wait");
    let err = String::from_utf8_lossy(&o.stderr).to_string();
    if signal_of(&o.status).is_some() {
        return (true, None, err);
    }
    if o.status.code() == Some(3) {
        let s = String::from_utf8_lossy(&o.stdout);
        let v = s.lines().next().and_then(|l| serde_json::from_str::<Value>(l).ok());
        return (false, v, err);
    }
    (false, None, err)
}

/// Outcome of a supervised child: finished (status, stdout, stderr) or hung past the timeout (step name).
enum Supervised {
    Finished(std::process::ExitStatus, String, String),
    Hung(String),
}

/// Ask a hung child which step it is in: SIGSEGV runs the fatal-signal handler, which prints the step
/// and dies; SIGKILL afterwards in case the handler is not reached.
fn interrogate_and_kill(c: &mut std::process::Child) {
    unsafe {
        libc::kill(c.id() as libc::pid_t, libc::SIGSEGV);
    }
    let t = Instant::now();
    while t.elapsed() < Duration::from_secs(3) {
        if let Ok(Some(_)) = c.try_wait() {
            return;
        }
        std::thread::sleep(Duration::from_millis(10));
    }
    let _ = c.kill();
    let _ = c.wait();
}

fn step_of(stderr: &str) -> String {
    stderr.lines().rev().find_map(|l| l.split("EPVERIF-SIGNAL step=").nth(1)).map(|s| s.trim().split('(').next().unwrap_or("").to_string()).unwrap_or_default()
}

fn supervise(mut cmd: Command, timeout: Duration, tag: &str) -> Supervised {
    let dir = std::env::temp_dir();
    let uniq = format!("epverif-{}-{}-{}", std::process::id(), tag, Instant::now().elapsed().as_nanos() as u64 ^ (std::time::SystemTime::now().duration_since(std::time::UNIX_EPOCH).map(|d| d.as_nanos() as u64).unwrap_or(0)));
    let (po, pe) = (dir.join(format!("{uniq}.out")), dir.join(format!("{uniq}.err")));
    let mut c = cmd
        .stdin(Stdio::null())
        .stdout(Stdio::from(std::fs::File::create(&po).expect("tmp out")))
        .stderr(Stdio::from(std::fs::File::create(&pe).expect("tmp err")))
        .spawn()
        .expect("spawn");
    let t0 = Instant::now();
    let mut hung = false;
    let status = loop {
        match c.try_wait() {
            Ok(Some(s)) => break Some(s),
            Ok(None) => {
                if t0.elapsed() > timeout {
                    hung = true;
                    interrogate_and_kill(&mut c);
                    break None;
                }
                std::thread::sleep(Duration::from_millis(2));
            }
            Err(_) => break None,
        }
    };
    let out = std::fs::read_to_string(&po).unwrap_or_default();
    let err = String::from_utf8_lossy(&std::fs::read(&pe).unwrap_or_default()).to_string();
    let _ = std::fs::remove_file(&po);
    let _ = std::fs::remove_file(&pe);
    match (hung, status) {
        (false, Some(st)) => Supervised::Finished(st, out, err),
        _ => Supervised::Hung(step_of(&err)),
    }
}

/// Does this tape make a fresh child run longer than `timeout`? Some(step) if so.
fn child_hangs(profile: &str, prop: &str, tier: Tier, tape: &[u8], timeout: Duration) -> Option<String> {
    let mut cmd = Command::new(exe_for(profile));
    cmd.args(["run-tape", prop, tier.name(), &hex(tape)]);
    match supervise(cmd, timeout, "hang") {
        Supervised::Hung(step) => Some(step),
        Supervised::Finished(..) => None,
    }
}

/// ddmin over the tape with "a fresh child does not finish within 5 s" as the test (cases take ms).
fn shrink_hang_tape(profile: &str, prop: &str, tier: Tier, tape: &[u8]) -> Vec<u8> {
    let hangs = |t: &[u8]| child_hangs(profile, prop, tier, t, Duration::from_secs(4)).is_some();
    let mut cur = tape.to_vec();
    let budget = Instant::now();
    let mut n = cur.len() / 2;
    while n > 0 && budget.elapsed() < Duration::from_secs(60) {
        if cur.len() > n {
            let cand = cur[..cur.len() - n].to_vec();
            if hangs(&cand) {
                cur = cand;
                continue;
            }
        }
        n /= 2;
    }
    let mut chunk = (cur.len() / 4).max(1);
    while chunk >= 1 && budget.elapsed() < Duration::from_secs(150) {
        let mut i = 0;
        while i + chunk <= cur.len() && budget.elapsed() < Duration::from_secs(150) {
            let mut cand = cur.clone();
            cand.drain(i..i + chunk);
            if hangs(&cand) {
                cur = cand;
            } else {
                i += chunk;
            }
        }
        if chunk == 1 {
            break;
        }
        chunk /= 2;
    }
    cur
}

/// ddmin over the tape with "child crashes" as the test.
fn shrink_crash_tape(profile: &str, prop: &str, tier: Tier, tape: &[u8]) -> Vec<u8> {
    let crashes = |t: &[u8]| child_run_tape(profile, prop, tier, t, Duration::from_secs(60)).0;
    let mut cur = tape.to_vec();
    let budget = Instant::now();
    // 1. truncate from the end (exhausted tape = zeros)
    let mut n = cur.len() / 2;
    while n > 0 && budget.elapsed() < Duration::from_secs(120) {
        if cur.len() > n {
            let cand = cur[..cur.len() - n].to_vec();
            if crashes(&cand) {
                cur = cand;
                continue;
            }
        }
        n /= 2;
    }
    // 2. remove chunks
    let mut chunk = (cur.len() / 2).max(1);
    while chunk >= 1 && budget.elapsed() < Duration::from_secs(240) {
        let mut i = 0;
        let mut any = false;
        while i + chunk <= cur.len() {
            let mut cand = cur.clone();
            cand.drain(i..i + chunk);
            if crashes(&cand) {
                cur = cand;
                any = true;
            } else {
                i += chunk;
            }
        }
        if chunk == 1 && !any {
            break;
        }
        if !any {
            chunk /= 2;
        }
        if chunk == 0 {
            break;
        }
    }
    // 3. zero single bytes
    for i in 0..cur.len() {
        if budget.elapsed() > Duration::from_secs(300) {
            break;
        }
        if cur[i] != 0 {
            let mut cand = cur.clone();
            cand[i] = 0;
            if crashes(&cand) {
                cur = cand;
            }
        }
    }
    cur
}

fn abort_message(stderr: &str) -> String {
    for l in stderr.lines().rev() {
        if l.contains("EPVERIF-PANIC") || l.contains("EPVERIF-SIGNAL") || l.contains("unsafe precondition") || l.contains("panicked at") || l.contains("AddressSanitizer") {
            return l.trim().chars().take(300).collect();
        }
    }
    stderr.lines().last().unwrap_or("").trim().chars().take(300).collect()
}

pub fn driver_main(prop: &dyn Property, tier: Tier, root: &Path) -> i32 {
    let t0 = Instant::now();
    let seed: u64 = std::env::var("VERIF_SEED").ok().and_then(|s| s.trim().parse::<i64>().ok()).map(|x| x as u64).unwrap_or(0);
    let id = prop.id();
    let known = load_known(root);
    let work = root.join(".work").join(id);
    let _ = std::fs::remove_dir_all(&work);
    std::fs::create_dir_all(&work).expect("work dir");
    let _ = std::fs::remove_dir_all(root.join("replays").join(id));

    let mut violations: Vec<(String, String)> = vec![]; // (signature, replay path)
    let mut known_hits: BTreeMap<String, u64> = BTreeMap::new();
    let mut infra_error: Option<String> = None;
    let mut regress_replayed = 0u64;

    // 1. regression replays (each in a child, both profiles where applicable)
    let regress_dir = root.join("regress").join(id);
    let mut files: Vec<PathBuf> = std::fs::read_dir(&regress_dir)
        .map(|d| d.filter_map(|e| e.ok()).map(|e| e.path()).filter(|p| p.extension().map(|e| e == "json").unwrap_or(false)).collect())
        .unwrap_or_default();
    files.sort();
    let profiles: Vec<&'static str> = if prop.also_release() { vec!["checked", "release"] } else { vec!["checked"] };
    for f in &files {
        for profile in &profiles {
            regress_replayed += 1;
            let mut cmd = Command::new(exe_for(profile));
            cmd.args(["replay-file", id, tier.name(), &f.to_string_lossy()]);
            let (status, out, errs) = match supervise(cmd, Duration::from_secs(180), "regress") {
                Supervised::Finished(st, o, e) => (st, o, e),
                Supervised::Hung(step) => {
                    if prop.hang_is_violation() {
                        let signature = format!("{}|hang|{}", id, step);
                        if known.iter().any(|k| k.property == id && k.status == "known" && k.signature == signature) {
                            *known_hits.entry(signature).or_insert(0) += 1;
                        } else {
                            violations.push((signature, f.to_string_lossy().to_string()));
                        }
                    } else {
                        infra_error = Some(format!("replay of {} does not finish within 180 s (step `{}`; inconclusive)", f.display(), step));
                    }
                    continue;
                }
            };
            if let Some(sig) = signal_of(&status) {
                let msg = abort_message(&errs);
                let signature = format!("{}|crash|{}", id, crash_class(sig, &msg));
                if known.iter().any(|k| k.property == id && k.status == "known" && k.signature == signature) {
                    *known_hits.entry(signature).or_insert(0) += 1;
                } else {
                    violations.push((signature, f.to_string_lossy().to_string()));
                }
            } else {
                match status.code() {
                    Some(0) => {}
                    Some(4) => {
                        for l in out.lines() {
                            if let Some(s) = l.strip_prefix("KNOWN ") {
                                *known_hits.entry(s.to_string()).or_insert(0) += 1;
                            }
                        }
                    }
                    Some(3) => {
                        let sig = out
                            .lines()
                            .next()
                            .and_then(|l| serde_json::from_str::<Value>(l).ok())
                            .and_then(|v| v["signature"].as_str().map(|s| s.to_string()))
                            .unwrap_or_else(|| format!("{}|regress", id));
                        violations.push((sig, f.to_string_lossy().to_string()));
                    }
                    c => infra_error = Some(format!("replay of {} exited with {:?}", f.display(), c)),
                }
            }
        }
    }

    // 2. workers
    let ncpu = std::thread::available_parallelism().map(|n| n.get()).unwrap_or(4) as u64;
    let nshards = std::env::var("EPVERIF_WORKERS").ok().and_then(|s| s.parse().ok()).unwrap_or(ncpu).max(1);
    let total_cases = std::env::var("EPVERIF_CASES").ok().and_then(|s| s.parse().ok()).unwrap_or_else(|| prop.cases(tier));
    let mut children: Vec<Child> = vec![];
    let mut merged_nontrivial: BTreeSet<String> = BTreeSet::new();
    let mut evaluations = 0u64;
    let mut cases = 0u64;
    let mut distribution: BTreeMap<String, u64> = BTreeMap::new();
    let mut samples: Vec<Value> = vec![];
    let mut worker_wall: Vec<f64> = vec![];
    let mut crashed_workers = 0u64;
    let mut hang_confirmed = false;
    let mut also_stalled = 0u64;

    let stall_limit = Duration::from_secs(std::env::var("EPVERIF_STALL_S").ok().and_then(|s| s.parse().ok()).unwrap_or(60));
    let time_limit = Duration::from_secs(std::env::var("EPVERIF_TIME_LIMIT_S").ok().and_then(|s| s.parse().ok()).unwrap_or(tier.pick(1500, 7200)));

    for profile in &profiles {
        // run the profiles one after the other so each gets all cores
        for shard in 0..nshards {
            let out = work.join(format!("w{}_{}.json", profile, shard));
            let cur = work.join(format!("w{}_{}.cur", profile, shard));
            let stderr_path = work.join(format!("w{}_{}.stderr", profile, shard));
            let stderr_file = std::fs::File::create(&stderr_path).expect("stderr file");
            let child = Command::new(exe_for(profile))
                .args([
                    "worker",
                    id,
                    tier.name(),
                    &seed.to_string(),
                    &shard.to_string(),
                    &nshards.to_string(),
                    &total_cases.to_string(),
                    &out.to_string_lossy(),
                    &cur.to_string_lossy(),
                ])
                .stdin(Stdio::null())
                .stdout(Stdio::null())
                .stderr(Stdio::from(stderr_file))
                .spawn()
                .expect("spawn worker");
            children.push(Child { shard, profile, child, out, cur, stderr_path });
        }
        for mut c in children.drain(..) {
            // wait with global time limit; a worker whose current-case record does not change for
            // `stall_limit` is taken for hung in that case
            let mut last_fp = 0u64;
            let mut last_change = Instant::now();
            let mut last_poll = Instant::now();
            let mut stalled = false;
            let stall_limit = if hang_confirmed { Duration::from_secs(5) } else { stall_limit };
            let status = loop {
                match c.child.try_wait() {
                    Ok(Some(s)) => break Some(s),
                    Ok(None) => {
                        if t0.elapsed() > time_limit {
                            let _ = c.child.kill();
                            let _ = c.child.wait();
                            break None;
                        }
                        if last_poll.elapsed() > Duration::from_millis(500) {
                            last_poll = Instant::now();
                            let rec = std::fs::read(&c.cur).unwrap_or_default();
                            let fp = crate::tape::fnv64(&rec);
                            // generated cases take milliseconds; items of the enumerated parts may take
                            // many seconds (e.g. C14 sums 4 GiB): ten times the limit there
                            let in_case = rec.len() >= 4 && u32::from_le_bytes(rec[0..4].try_into().unwrap()) == 1;
                            let limit = if in_case { stall_limit } else { stall_limit * 10 };
                            if fp != last_fp {
                                last_fp = fp;
                                last_change = Instant::now();
                            } else if last_change.elapsed() > limit {
                                stalled = true;
                                interrogate_and_kill(&mut c.child);
                                break None;
                            }
                        }
                        std::thread::sleep(Duration::from_millis(20));
                    }
                    Err(_) => break None,
                }
            };
            if stalled && hang_confirmed {
                // one non-terminating case was analysed already; further stuck workers are only counted
                also_stalled += 1;
                continue;
            }
            if stalled {
                let stderr = std::fs::read_to_string(&c.stderr_path).unwrap_or_default();
                let step0 = step_of(&stderr);
                match read_cur(&c.cur) {
                    CurRecord::Tape(tape, counter) => {
                        cases += counter;
                        // confirm in a fresh process with a generous limit (a case takes milliseconds)
                        if child_hangs(c.profile, id, tier, &tape, Duration::from_secs(40)).is_some() {
                            hang_confirmed = true;
                            let small = shrink_hang_tape(c.profile, id, tier, &tape);
                            let step = child_hangs(c.profile, id, tier, &small, Duration::from_secs(40));
                            let (small, step) = match step {
                                Some(s2) => (small, s2),
                                None => (tape.clone(), step0.clone()),
                            };
                            if prop.hang_is_violation() {
                                let signature = format!("{}|hang|{}", id, step);
                                let v = json!({
                                    "property": id, "seed": seed, "signature": signature,
                                    "oracle_clause": "every call terminates",
                                    "detail": format!("a fresh process ({} profile) given this case alone does not finish within 40 s (cases take milliseconds); it was in step `{}` when interrupted", c.profile, step),
                                    "input": {"tape_hex": hex(&small)},
                                    "derived_input": prop.describe(&small),
                                    "profile": c.profile,
                                });
                                if known.iter().any(|k| k.property == id && k.status == "known" && k.signature == signature) {
                                    *known_hits.entry(signature).or_insert(0) += 1;
                                } else {
                                    let p = write_replay(root, id, &v);
                                    violations.push((signature, p.to_string_lossy().to_string()));
                                }
                            } else {
                                infra_error = Some(format!("worker {} ({}) hung in step `{}`; the case (tape {}) also hangs a fresh process for 40 s - non-termination is C02's subject, this check is inconclusive", c.shard, c.profile, step, hex(&small)));
                            }
                        } else {
                            infra_error = Some(format!("worker {} ({}) made no progress for {:?} in step `{}` but its case finishes in a fresh process (inconclusive)", c.shard, c.profile, stall_limit, step0));
                        }
                    }
                    _ => infra_error = Some(format!("worker {} ({}) made no progress for {:?} outside a generated case (step `{}`; inconclusive)", c.shard, c.profile, stall_limit, step0)),
                }
                continue;
            }
            let Some(status) = status else {
                infra_error = Some(format!("worker {} ({}) exceeded the time limit of {:?} (inconclusive)", c.shard, c.profile, time_limit));
                continue;
            };
            if let Some(sig) = signal_of(&status) {
                crashed_workers += 1;
                let stderr = std::fs::read_to_string(&c.stderr_path).unwrap_or_default();
                match read_cur(&c.cur) {
                    CurRecord::Tape(tape, counter) => {
                        cases += counter;
                        // confirm in a fresh process
                        let (crashed, _, err2) = child_run_tape(c.profile, id, tier, &tape, Duration::from_secs(120));
                        if crashed {
                            let small = shrink_crash_tape(c.profile, id, tier, &tape);
                            let (_, _, err3) = child_run_tape(c.profile, id, tier, &small, Duration::from_secs(120));
                            let msg = abort_message(if err3.is_empty() { &err2 } else { &err3 });
                            let signature = format!("{}|crash|{}", id, crash_class(sig, &msg));
                            let v = json!({
                                "property": id, "seed": seed, "signature": signature,
                                "oracle_clause": "worker survives",
                                "detail": format!("worker ({} profile) died with signal {}: {}", c.profile, sig, msg),
                                "input": {"tape_hex": hex(&small)},
                                "derived_input": prop.describe(&small),
                                "profile": c.profile,
                            });
                            if known.iter().any(|k| k.property == id && k.status == "known" && k.signature == signature) {
                                *known_hits.entry(signature).or_insert(0) += 1;
                            } else {
                                let p = write_replay(root, id, &v);
                                violations.push((signature, p.to_string_lossy().to_string()));
                            }
                        } else {
                            infra_error = Some(format!(
                                "worker {} ({}) died with signal {} but the last case did not crash again in a fresh process: {}",
                                c.shard,
                                c.profile,
                                sig,
                                abort_message(&stderr)
                            ));
                        }
                    }
                    CurRecord::Exh(a, b) => {
                        let msg = abort_message(&stderr);
                        let signature = format!("{}|crash|{}", id, crash_class(sig, &msg));
                        let v = json!({
                            "property": id, "seed": seed, "signature": signature,
                            "oracle_clause": "worker survives",
                            "detail": format!("worker ({} profile) died with signal {} in the enumerated part: {}", c.profile, sig, msg),
                            "input": {"exh": [a, b]},
                            "profile": c.profile,
                        });
                        let p = write_replay(root, id, &v);
                        violations.push((signature, p.to_string_lossy().to_string()));
                    }
                    _ => {
                        infra_error = Some(format!("worker {} ({}) died with signal {} outside a case: {}", c.shard, c.profile, sig, abort_message(&stderr)));
                    }
                }
                continue;
            }
            if status.code() != Some(0) {
                let stderr = std::fs::read_to_string(&c.stderr_path).unwrap_or_default();
                infra_error = Some(format!("worker {} ({}) exited with {:?}: {}", c.shard, c.profile, status.code(), stderr.lines().last().unwrap_or("")));
                continue;
            }
            let Ok(s) = std::fs::read_to_string(&c.out) else {
                infra_error = Some(format!("worker {} wrote no result", c.shard));
                continue;
            };
            let Ok(v) = serde_json::from_str::<Value>(&s) else {
                infra_error = Some(format!("worker {} wrote an unparsable result", c.shard));
                continue;
            };
            evaluations += v["evaluations"].as_u64().unwrap_or(0);
            cases += v["cases"].as_u64().unwrap_or(0);
            worker_wall.push(v["wall_s"].as_f64().unwrap_or(0.0));
            for h in v["nontrivial"].as_array().cloned().unwrap_or_default() {
                if let Some(s) = h.as_str() {
                    merged_nontrivial.insert(s.to_string());
                }
            }
            if let Some(d) = v["distribution"].as_object() {
                for (k, n) in d {
                    *distribution.entry(k.clone()).or_insert(0) += n.as_u64().unwrap_or(0);
                }
            }
            if let Some(a) = v["samples"].as_array() {
                for s in a.iter().take(2) {
                    if samples.len() < 12 {
                        samples.push(s.clone());
                    }
                }
            }
            if let Some(d) = v["known_hits"].as_object() {
                for (k, n) in d {
                    *known_hits.entry(k.clone()).or_insert(0) += n.as_u64().unwrap_or(0);
                }
            }
            for viol in v["violations"].as_array().cloned().unwrap_or_default() {
                violations.push((viol["signature"].as_str().unwrap_or("").to_string(), viol["replay"].as_str().unwrap_or("").to_string()));
            }
        }
    }

    // 3. post step (fuzz campaigns etc.)
    let mut extra = Value::Null;
    if violations.is_empty() && infra_error.is_none() {
        match prop.post(tier, seed, root) {
            Ok(v) => extra = v,
            Err(f) => {
                let v = replay_value(prop, &f, seed, None);
                if known.iter().any(|k| k.property == id && k.status == "known" && k.signature == f.signature) {
                    *known_hits.entry(f.signature.clone()).or_insert(0) += 1;
                } else {
                    let p = write_replay(root, id, &v);
                    violations.push((f.signature, p.to_string_lossy().to_string()));
                }
            }
        }
    }

    // 4. evidence
    violations.sort();
    violations.dedup_by(|a, b| a.0 == b.0);
    let wall = t0.elapsed().as_secs_f64();
    let mut coverage = json!({
        "evaluations": evaluations,
        "generated_cases": cases,
        "distinct_nontrivial": merged_nontrivial.len(),
        "rule": prop.rule(),
        "samples": samples,
        "distribution": distribution,
        "excluded_known": known_hits,
        "regress_files_replayed": regress_replayed,
        "workers": nshards,
        "profiles": profiles,
        "crashed_workers": crashed_workers,
        "workers_stuck_after_a_confirmed_hang": also_stalled,
        "worker_wall_s_max": worker_wall.iter().cloned().fold(0.0, f64::max),
    });
    if let Some(txt) = prop.exhaustive_claim(tier) {
        if prop.exhaustive_is_whole_domain(tier) {
            coverage["exhaustive"] = Value::Bool(true);
            coverage["exhaustive_domain"] = Value::String(txt);
        } else {
            coverage["exhaustive"] = Value::Bool(false);
            coverage["exhaustive_subdomains"] = Value::String(txt);
        }
    }
    if let Some(o) = extra.as_object() {
        for (k, v) in o {
            coverage[k] = v.clone();
        }
    }
    if let Ok(s) = std::fs::read_to_string(root.join("tools/mutants/results").join(format!("{}.json", id))) {
        if let Ok(v) = serde_json::from_str::<Value>(&s) {
            coverage["sensitivity"] = v;
        }
    }
    // registry audit (informational): public decoders of the repository the harness does not name
    if matches!(id, "C01" | "C02") {
        let repo = std::env::var("EPVERIF_REPO").unwrap_or_else(|_| "/repo".into());
        if let Ok(o) = std::process::Command::new("python3").arg(root.join("tools/inventory.py")).arg("--json").arg(&repo).output() {
            if let Ok(v) = serde_json::from_slice::<Value>(&o.stdout) {
                coverage["entry_point_inventory"] = v;
            }
        }
    }
    if let Some(e) = &infra_error {
        coverage["infrastructure_error"] = Value::String(e.clone());
    }
    let ev = json!({
        "property_id": id,
        "tier": tier.name(),
        "seed": seed as i64,
        "level": prop.level(),
        "coverage": coverage,
        "assumptions": prop.assumptions(),
        "wall_s": wall,
        "violations": violations.len(),
    });
    let evdir = root.join("evidence");
    let _ = std::fs::create_dir_all(&evdir);
    let evpath = evdir.join(format!("{}.json", id));
    std::fs::write(&evpath, serde_json::to_string_pretty(&ev).unwrap()).expect("write evidence");

    // 5. report
    let so = std::io::stdout();
    let mut so = so.lock();
    for k in known.iter().filter(|k| k.property == id && k.status == "known") {
        let n = known_hits.get(&k.signature).copied().unwrap_or(0);
        let _ = writeln!(so, "KNOWN-FINDING: property={} {} [signature {}; {} occurrences in this run]", id, k.what, k.signature, n);
    }
    let _ = writeln!(
        so,
        "{} {} seed={} cases={} evaluations={} distinct_nontrivial={} wall={:.1}s violations={}",
        id,
        tier.name(),
        seed,
        cases,
        evaluations,
        merged_nontrivial.len(),
        wall,
        violations.len()
    );
    if !violations.is_empty() {
        for (sig, path) in &violations {
            let _ = writeln!(so, "VIOLATION property={} replay={}", id, path);
            let _ = writeln!(so, "  signature: {}", sig);
            if let Ok(s) = std::fs::read_to_string(path) {
                if let Ok(v) = serde_json::from_str::<Value>(&s) {
                    let _ = writeln!(so, "  clause: {}", v["oracle_clause"].as_str().unwrap_or(""));
                    let d: String = v["detail"].as_str().unwrap_or("").chars().take(600).collect();
                    let _ = writeln!(so, "  detail: {}", d);
                }
            }
        }
        return 1;
    }
    if let Some(e) = infra_error {
        let _ = writeln!(so, "INCONCLUSIVE (infrastructure): {}", e);
        return 2;
    }
    0
}

fn crash_class(sig: i32, msg: &str) -> String {
    // keep the part of the message that names the violated precondition / location, drop addresses
    // "EPVERIF-PANIC step=<entry> panicked at: <msg> @ <loc>"  /  "EPVERIF-SIGNAL step=<entry>"
    let step = msg.split("step=").nth(1).map(|s| s.split(" panicked at").next().unwrap_or(s).trim().to_string()).unwrap_or_default();
    let step = step.split('(').next().unwrap_or("").to_string();
    let what = if let Some(i) = msg.find("panicked at: ") { msg[i + 13..].to_string() } else { String::new() };
    let what: String = what.split(" @ ").next().unwrap_or("").chars().take(100).collect();
    format!("{}|signal{}|{}", step, sig, what)
}

/// `--replay <file>` from the command line: exit 0 pass / known finding, 1 violation.
pub fn replay_cli(prop: &dyn Property, tier: Tier, file: &Path, root: &Path) -> i32 {
    let id = prop.id();
    let known = load_known(root);
    let profiles: Vec<&'static str> = if prop.also_release() { vec!["checked", "release"] } else { vec!["checked"] };
    let mut rc = 0;
    for profile in profiles {
        let mut cmd = Command::new(exe_for(profile));
        cmd.args(["replay-file", id, tier.name(), &file.to_string_lossy()]);
        let (status, out, errs) = match supervise(cmd, Duration::from_secs(180), "replay") {
            Supervised::Finished(st, o, e) => (st, o, e),
            Supervised::Hung(step) => {
                if prop.hang_is_violation() {
                    println!("VIOLATION property={} replay={}", id, file.display());
                    println!("  signature: {}|hang|{}", id, step);
                    println!("  the replay does not finish within 180 s ({} profile); interrupted in step `{}`", profile, step);
                    rc = 1;
                } else {
                    println!("INCONCLUSIVE: replay does not finish within 180 s (step `{}`)", step);
                    if rc == 0 {
                        rc = 2;
                    }
                }
                continue;
            }
        };
        if let Some(sig) = signal_of(&status) {
            let msg = abort_message(&errs);
            println!("VIOLATION property={} replay={}", id, file.display());
            println!("  crash ({} profile): signal {} {}", profile, sig, msg);
            rc = 1;
            continue;
        }
        match status.code() {
            Some(0) => println!("replay passed ({} profile)", profile),
            Some(4) => {
                for l in out.lines() {
                    if let Some(s) = l.strip_prefix("KNOWN ") {
                        let what = known.iter().find(|k| k.signature == s).map(|k| k.what.clone()).unwrap_or_default();
                        println!("KNOWN-FINDING: property={} {} [signature {}]", id, what, s);
                    }
                }
            }
            Some(3) => {
                println!("VIOLATION property={} replay={}", id, file.display());
                if let Some(v) = out.lines().next().and_then(|l| serde_json::from_str::<Value>(l).ok()) {
                    println!("  signature: {}", v["signature"].as_str().unwrap_or(""));
                    println!("  clause: {}", v["oracle_clause"].as_str().unwrap_or(""));
                    println!("  detail: {}", v["detail"].as_str().unwrap_or(""));
                }
                rc = 1;
            }
            c => {
                println!("INCONCLUSIVE: replay exited with {:?}", c);
                if rc == 0 {
                    rc = 2;
                }
            }
        }
    }
    rc
}

/// helper for properties: decode a hex field of a replay input
pub fn input_bytes(input: &Value, key: &str) -> Vec<u8> {
    input.get(key).and_then(|x| x.as_str()).and_then(unhex).unwrap_or_default()
}

/// unused-variable silencer for strategies
#[allow(dead_code)]
fn _assert_strategy<S: Strategy>(_s: &S)
where
    S::Tree: ValueTree,
{
}
