//! epverif — property-based testing / fuzzing harness deciding the 17 etherparse properties.
pub mod engine;
pub mod props;
pub mod tape;
