//! epverif — property-based testing / fuzzing harness deciding the 17 etherparse properties.
pub mod engine;
pub mod fuzzapi;
pub mod gen;
pub mod guard;
pub mod obs;
pub mod props;
pub mod refdec;
pub mod tape;
