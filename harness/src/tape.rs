//! Entropy tape: every structured generator in this harness is a pure function of a byte string.
//!
//! proptest generates and shrinks the byte string, libFuzzer mutates it; the decoding below is
//! monotone (a smaller byte selects an earlier = simpler alternative, an exhausted tape yields
//! zeros) so that shrinking the tape shrinks the derived value. There is no rejection: every tape
//! decodes to a valid value.

#[derive(Clone)]
pub struct Tape<'a> {
    data: &'a [u8],
    pos: usize,
}

impl<'a> Tape<'a> {
    pub fn new(data: &'a [u8]) -> Tape<'a> {
        Tape { data, pos: 0 }
    }

    /// Number of tape bytes consumed so far (may exceed the tape length when exhausted).
    pub fn consumed(&self) -> usize {
        self.pos
    }

    pub fn exhausted(&self) -> bool {
        self.pos >= self.data.len()
    }

    pub fn u8(&mut self) -> u8 {
        let v = self.data.get(self.pos).copied().unwrap_or(0);
        self.pos += 1;
        v
    }

    pub fn u16(&mut self) -> u16 {
        u16::from_be_bytes([self.u8(), self.u8()])
    }

    pub fn u32(&mut self) -> u32 {
        u32::from_be_bytes([self.u8(), self.u8(), self.u8(), self.u8()])
    }

    pub fn u64(&mut self) -> u64 {
        ((self.u32() as u64) << 32) | self.u32() as u64
    }

    pub fn u128(&mut self) -> u128 {
        ((self.u64() as u128) << 64) | self.u64() as u128
    }

    pub fn arr<const N: usize>(&mut self) -> [u8; N] {
        let mut a = [0u8; N];
        for x in a.iter_mut() {
            *x = self.u8();
        }
        a
    }

    pub fn bytes(&mut self, n: usize) -> Vec<u8> {
        (0..n).map(|_| self.u8()).collect()
    }

    /// Uniform-ish index in `0..n` (n >= 1), monotone in the tape bytes.
    pub fn below(&mut self, n: usize) -> usize {
        if n <= 1 {
            return 0;
        }
        if n <= 256 {
            (self.u8() as usize * n) >> 8
        } else if n <= 65536 {
            (self.u16() as usize * n) >> 16
        } else {
            ((self.u32() as u64 * n as u64) >> 32) as usize
        }
    }

    /// Value in `lo..=hi`.
    pub fn range(&mut self, lo: usize, hi: usize) -> usize {
        debug_assert!(lo <= hi);
        lo + self.below(hi - lo + 1)
    }

    pub fn bool(&mut self) -> bool {
        self.u8() >= 128
    }

    /// True with probability `num/den` (false on an exhausted tape as long as num < den).
    pub fn chance(&mut self, num: u32, den: u32) -> bool {
        let v = self.u8() as u32;
        // v in 0..256; true for the top num/den fraction
        v * den >= (den - num.min(den)) * 256
    }

    pub fn pick<T: Clone>(&mut self, xs: &[T]) -> T {
        xs[self.below(xs.len())].clone()
    }

    /// Index chosen with the given weights; index 0 is what an exhausted tape selects.
    pub fn weighted(&mut self, weights: &[u32]) -> usize {
        let total: u32 = weights.iter().sum();
        if total == 0 {
            return 0;
        }
        let mut x = ((self.u16() as u64 * total as u64) >> 16) as u32;
        for (i, w) in weights.iter().enumerate() {
            if x < *w {
                return i;
            }
            x -= *w;
        }
        weights.len() - 1
    }

    /// A u8 biased to interesting corners: 0, 1, 0xff, 0x7f, 0x80, otherwise uniform.
    pub fn u8_corner(&mut self) -> u8 {
        match self.weighted(&[8, 1, 1, 1, 1, 1]) {
            0 => self.u8(),
            1 => 0,
            2 => 1,
            3 => 0xff,
            4 => 0x7f,
            _ => 0x80,
        }
    }

    pub fn u16_corner(&mut self) -> u16 {
        match self.weighted(&[8, 1, 1, 1, 1, 1]) {
            0 => self.u16(),
            1 => 0,
            2 => 1,
            3 => 0xffff,
            4 => 0x7fff,
            _ => 0x8000,
        }
    }

    pub fn u32_corner(&mut self) -> u32 {
        match self.weighted(&[8, 1, 1, 1, 1, 1]) {
            0 => self.u32(),
            1 => 0,
            2 => 1,
            3 => 0xffff_ffff,
            4 => 0x7fff_ffff,
            _ => 0x8000_0000,
        }
    }

    /// `n` bytes: mostly random, sometimes all-zero / all-ones (carry chains, reserved bits).
    pub fn bytes_corner(&mut self, n: usize) -> Vec<u8> {
        match self.weighted(&[10, 1, 1]) {
            0 => self.bytes(n),
            1 => vec![0; n],
            _ => vec![0xff; n],
        }
    }
}

pub fn hex(b: &[u8]) -> String {
    let mut s = String::with_capacity(b.len() * 2);
    for x in b {
        s.push_str(&format!("{:02x}", x));
    }
    s
}

pub fn unhex(s: &str) -> Option<Vec<u8>> {
    let s = s.trim();
    if s.len() % 2 != 0 {
        return None;
    }
    let mut out = Vec::with_capacity(s.len() / 2);
    let b = s.as_bytes();
    for i in (0..b.len()).step_by(2) {
        let h = (b[i] as char).to_digit(16)?;
        let l = (b[i + 1] as char).to_digit(16)?;
        out.push((h * 16 + l) as u8);
    }
    Some(out)
}

/// FNV-1a, used for all signature hashing (stable across runs and processes).
pub fn fnv64(s: &[u8]) -> u64 {
    let mut h: u64 = 0xcbf29ce484222325;
    for b in s {
        h ^= *b as u64;
        h = h.wrapping_mul(0x100000001b3);
    }
    h
}
