pub mod packet;
