//! Packet grammar: tape -> (start point, bytes, intent).
//!
//! Packets are assembled inner-first by encoders written from the wire formats (nothing of
//! etherparse is used here), so that every length field can be set exactly or perturbed relative
//! to the true size. The *intent* is not an oracle (perturbations change the meaning of the bytes);
//! it only feeds the distribution counters.

use crate::tape::Tape;

#[derive(Clone, Copy, Debug, PartialEq, Eq)]
pub enum Start {
    Ethernet,
    LinuxSll,
    EtherType(u16),
    Ip,
}

impl Start {
    pub fn name(&self) -> String {
        match self {
            Start::Ethernet => "eth".into(),
            Start::LinuxSll => "sll".into(),
            Start::EtherType(e) => format!("et{:04x}", e),
            Start::Ip => "ip".into(),
        }
    }
    pub fn kind(&self) -> &'static str {
        match self {
            Start::Ethernet => "eth",
            Start::LinuxSll => "sll",
            Start::EtherType(_) => "ether_type",
            Start::Ip => "ip",
        }
    }
    pub fn to_json(&self) -> serde_json::Value {
        match self {
            Start::Ethernet => serde_json::json!("ethernet"),
            Start::LinuxSll => serde_json::json!("linux_sll"),
            Start::EtherType(e) => serde_json::json!({"ether_type": e}),
            Start::Ip => serde_json::json!("ip"),
        }
    }
    pub fn from_json(v: &serde_json::Value) -> Start {
        if let Some(s) = v.as_str() {
            match s {
                "ethernet" => Start::Ethernet,
                "linux_sll" => Start::LinuxSll,
                _ => Start::Ip,
            }
        } else {
            Start::EtherType(v["ether_type"].as_u64().unwrap_or(0) as u16)
        }
    }
}

#[derive(Clone, Debug, Default)]
pub struct Intent {
    /// layer names in order, e.g. ["eth","vlan","macsec","ipv6","ext:frag","udp"]
    pub layers: Vec<String>,
    /// perturbations applied ("len:ipv4:above", "trunc", "trailing", "flip", "noise", ...)
    pub perturb: Vec<String>,
    /// offsets at which a layer (header) starts or ends in the untruncated packet
    pub boundaries: Vec<usize>,
}

#[derive(Clone, Debug)]
pub struct GenPacket {
    pub start: Start,
    pub bytes: Vec<u8>,
    pub intent: Intent,
}

pub const ET_IPV4: u16 = 0x0800;
pub const ET_IPV6: u16 = 0x86dd;
pub const ET_ARP: u16 = 0x0806;
pub const ET_VLAN: u16 = 0x8100;
pub const ET_QINQ: u16 = 0x88a8;
pub const ET_VLAN2: u16 = 0x9100;
pub const ET_MACSEC: u16 = 0x88e5;

pub const INTERESTING_ETHER_TYPES: [u16; 7] = [ET_IPV4, ET_IPV6, ET_ARP, ET_VLAN, ET_QINQ, ET_VLAN2, ET_MACSEC];

/// How a length field relates to the true size.
#[derive(Clone, Copy, Debug, PartialEq, Eq)]
pub enum LenMode {
    Exact,
    Zero,
    Minus(usize),
    Plus(usize),
    BelowHeader,
    Huge,
}

impl LenMode {
    pub fn label(&self) -> &'static str {
        match self {
            LenMode::Exact => "exact",
            LenMode::Zero => "zero",
            LenMode::Minus(_) => "below",
            LenMode::Plus(_) => "above",
            LenMode::BelowHeader => "below_header",
            LenMode::Huge => "huge",
        }
    }
}

pub fn len_mode(t: &mut Tape) -> LenMode {
    match t.weighted(&[20, 2, 3, 3, 1, 1]) {
        0 => LenMode::Exact,
        1 => LenMode::Zero,
        2 => LenMode::Minus(1 + t.below(8)),
        3 => LenMode::Plus(1 + t.below(8)),
        4 => LenMode::BelowHeader,
        _ => LenMode::Huge,
    }
}

fn apply_len(mode: LenMode, exact: usize, header: usize, max: usize, t: &mut Tape) -> usize {
    let v = match mode {
        LenMode::Exact => exact,
        LenMode::Zero => 0,
        LenMode::Minus(k) => exact.saturating_sub(k),
        LenMode::Plus(k) => exact + k,
        LenMode::BelowHeader => {
            if header > 0 {
                t.below(header)
            } else {
                0
            }
        }
        LenMode::Huge => max,
    };
    v.min(max)
}

#[derive(Clone, Copy, Debug, PartialEq, Eq)]
enum Transport {
    None,
    Udp,
    Tcp,
    Icmpv4,
    Icmpv6,
    Other(u8),
}

impl Transport {
    fn ip_number(&self) -> u8 {
        match self {
            Transport::None => 59,
            Transport::Udp => 17,
            Transport::Tcp => 6,
            Transport::Icmpv4 => 1,
            Transport::Icmpv6 => 58,
            Transport::Other(n) => *n,
        }
    }
    fn label(&self) -> &'static str {
        match self {
            Transport::None => "none",
            Transport::Udp => "udp",
            Transport::Tcp => "tcp",
            Transport::Icmpv4 => "icmpv4",
            Transport::Icmpv6 => "icmpv6",
            Transport::Other(_) => "other",
        }
    }
}

/// valid TCP option encodings used to fill option areas
pub fn tcp_option(t: &mut Tape, out: &mut Vec<u8>) {
    match t.below(8) {
        0 => out.push(1),
        1 => out.extend_from_slice(&[2, 4, t.u8(), t.u8()]),
        2 => out.extend_from_slice(&[3, 3, t.u8()]),
        3 => out.extend_from_slice(&[4, 2]),
        4 => {
            let n = 1 + t.below(3);
            out.push(5);
            out.push((2 + 8 * n) as u8);
            for _ in 0..8 * n {
                out.push(t.u8());
            }
        }
        5 => {
            out.extend_from_slice(&[8, 10]);
            for _ in 0..8 {
                out.push(t.u8());
            }
        }
        6 => out.push(0),
        _ => out.extend_from_slice(&[t.u8(), t.u8()]),
    }
}

thread_local! {
    /// set by the checks whose per-case cost does not grow with rendering every byte (C03-C07)
    pub static ALLOW_BIG: std::cell::Cell<bool> = const { std::cell::Cell::new(false) };
}

fn gen_payload(t: &mut Tape) -> Vec<u8> {
    let n = match t.weighted(&[6, 6, 3, 1]) {
        0 => t.below(9),
        1 => t.below(65),
        2 => t.below(300),
        _ => t.below(1400),
    };
    // rarely, and only where the check asked for it, a payload around the places where 15/16 bit
    // length arithmetic wraps (and the common MTUs)
    let n = if ALLOW_BIG.with(|b| b.get()) && t.chance(1, 96) {
        let base = t.pick(&[1472usize, 8972, 32_747, 32_767, 32_768, 65_467, 65_487, 65_507, 65_515, 65_527, 65_535]);
        (base + t.below(25)).saturating_sub(12)
    } else {
        n
    };
    // cheap recognisable filler; a few tape bytes at the front
    let k = n.min(8);
    let mut v = t.bytes(k);
    for i in k..n {
        v.push((i as u8).wrapping_mul(31).wrapping_add(7));
    }
    v
}

/// transport header + payload
fn gen_transport(t: &mut Tape, tr: Transport, v6: bool, intent: &mut Intent) -> Vec<u8> {
    let mut out = vec![];
    match tr {
        Transport::None => {}
        Transport::Other(_) => out = gen_payload(t),
        Transport::Udp => {
            let payload = gen_payload(t);
            let exact = 8 + payload.len();
            let mode = match t.weighted(&[20, 3, 3, 3, 3, 1]) {
                0 => LenMode::Exact,
                1 => LenMode::Zero,
                2 => LenMode::Minus(1 + t.below(8)),
                3 => LenMode::Plus(1 + t.below(8)),
                4 => LenMode::BelowHeader,
                _ => LenMode::Huge,
            };
            if mode != LenMode::Exact {
                intent.perturb.push(format!("len:udp:{}", mode.label()));
            }
            let len = apply_len(mode, exact, 8, 65535, t);
            out.extend_from_slice(&t.u16().to_be_bytes());
            out.extend_from_slice(&t.u16().to_be_bytes());
            out.extend_from_slice(&(len as u16).to_be_bytes());
            out.extend_from_slice(&t.u16().to_be_bytes());
            out.extend_from_slice(&payload);
        }
        Transport::Tcp => {
            let doff = match t.weighted(&[12, 3, 2, 2, 1]) {
                0 => 5,
                1 => 5 + t.below(11),
                2 => 15,
                3 => t.below(5),
                _ => 6,
            };
            if doff < 5 {
                intent.perturb.push("tcp:doff<5".into());
            }
            let opt_len = if doff >= 5 { (doff - 5) * 4 } else { 0 };
            let mut opts = vec![];
            if opt_len > 0 {
                if t.chance(3, 4) {
                    let mut starts = vec![];
                    while opts.len() < opt_len {
                        starts.push(opts.len());
                        tcp_option(t, &mut opts);
                    }
                    if t.chance(1, 4) {
                        // one option lies about its length
                        let i = starts[t.below(starts.len())];
                        if i + 1 < opts.len() && opts[i] >= 2 {
                            opts[i + 1] = match t.below(5) {
                                0 => 0,
                                1 => 1,
                                2 => 2,
                                3 => opts[i + 1].wrapping_add(1),
                                _ => opts[i + 1].wrapping_sub(1),
                            };
                            intent.perturb.push("tcp:opt-len-lies".into());
                        }
                    }
                    opts.truncate(opt_len);
                } else {
                    opts = t.bytes(opt_len);
                }
            }
            out.extend_from_slice(&t.u16().to_be_bytes()); // sport
            out.extend_from_slice(&t.u16().to_be_bytes()); // dport
            out.extend_from_slice(&t.u32_corner().to_be_bytes()); // seq
            out.extend_from_slice(&t.u32_corner().to_be_bytes()); // ack
            let b12 = ((doff as u8) << 4) | (t.u8() & 0x0f); // reserved bits + ns
            out.push(b12);
            out.push(t.u8()); // flags
            out.extend_from_slice(&t.u16().to_be_bytes()); // window
            out.extend_from_slice(&t.u16().to_be_bytes()); // checksum
            out.extend_from_slice(&t.u16().to_be_bytes()); // urgent
            out.extend_from_slice(&opts);
            out.extend_from_slice(&gen_payload(t));
        }
        Transport::Icmpv4 => {
            const TYPES: [u8; 16] = [0, 3, 4, 5, 8, 9, 10, 11, 12, 13, 14, 15, 16, 17, 18, 40];
            let ty = if t.chance(5, 6) { t.pick(&TYPES) } else { t.u8() };
            let code = match t.weighted(&[6, 3, 1]) {
                0 => 0,
                1 => t.below(17) as u8,
                _ => t.u8(),
            };
            out.push(ty);
            out.push(code);
            out.extend_from_slice(&t.u16().to_be_bytes());
            out.extend_from_slice(&t.arr::<4>());
            if (ty == 13 || ty == 14) && t.chance(5, 6) {
                // timestamp: exactly 20 bytes is valid for code 0; also 19 / 21 / longer
                let n = match t.weighted(&[6, 2, 2, 1]) {
                    0 => 12,
                    1 => 11,
                    2 => 13,
                    _ => t.below(40),
                };
                out.extend(t.bytes(n));
            } else {
                out.extend(gen_payload(t));
            }
        }
        Transport::Icmpv6 => {
            const TYPES: [u8; 16] = [1, 2, 3, 4, 128, 129, 130, 131, 132, 133, 134, 135, 136, 137, 143, 200];
            let ty = if t.chance(5, 6) { t.pick(&TYPES) } else { t.u8() };
            let code = match t.weighted(&[6, 3, 1]) {
                0 => 0,
                1 => t.below(8) as u8,
                _ => t.u8(),
            };
            out.push(ty);
            out.push(code);
            out.extend_from_slice(&t.u16().to_be_bytes());
            out.extend_from_slice(&t.arr::<4>());
            if (133..=137).contains(&ty) && t.chance(3, 4) {
                // NDP body: fixed part + options
                let fixed = match ty {
                    133 => 0,
                    134 => 8,
                    135 | 136 => 16,
                    _ => 32,
                };
                out.extend(t.bytes(fixed));
                let nopt = t.below(4);
                for _ in 0..nopt {
                    let kind = t.pick(&[1u8, 2, 3, 4, 5, 14, 200]);
                    let units = match t.weighted(&[8, 1, 1, 1]) {
                        0 => match kind {
                            1 | 2 | 5 => 1,
                            3 => 4,
                            _ => 1 + t.below(3),
                        },
                        1 => 0,
                        2 => 1 + t.below(4),
                        _ => 255,
                    };
                    out.push(kind);
                    out.push(units as u8);
                    let body = (units.min(5) * 8).saturating_sub(2);
                    out.extend(t.bytes(body));
                }
            } else {
                out.extend(gen_payload(t));
            }
        }
    }
    let _ = v6;
    out
}

fn gen_auth_header(t: &mut Tape, next: u8, intent: &mut Intent, tag: &str) -> Vec<u8> {
    let icv_words = match t.weighted(&[8, 4, 2, 1]) {
        0 => 1,
        1 => t.below(5),
        2 => t.below(16),
        _ => 254,
    };
    let exact_len_field = icv_words + 1; // payload len = (12 + 4*icv_words)/4 - 2 = icv_words + 1
    let mode = match t.weighted(&[16, 2, 2, 2, 1, 1]) {
        0 => LenMode::Exact,
        1 => LenMode::Zero,
        2 => LenMode::Minus(1),
        3 => LenMode::Plus(1),
        4 => LenMode::BelowHeader,
        _ => LenMode::Huge,
    };
    if mode != LenMode::Exact {
        intent.perturb.push(format!("len:{}:{}", tag, mode.label()));
    }
    let lf = match mode {
        LenMode::Exact => exact_len_field,
        LenMode::Zero => 0,
        LenMode::Minus(k) => exact_len_field.saturating_sub(k),
        LenMode::Plus(k) => exact_len_field + k,
        LenMode::BelowHeader => 1,
        LenMode::Huge => 255,
    }
    .min(255);
    let mut out = vec![next, lf as u8];
    out.extend_from_slice(&t.u16_corner().to_be_bytes()); // reserved
    out.extend_from_slice(&t.u32().to_be_bytes()); // spi
    out.extend_from_slice(&t.u32().to_be_bytes()); // seq
    out.extend(t.bytes(icv_words.min(12) * 4));
    if icv_words > 12 {
        out.extend(std::iter::repeat(0xcc).take((icv_words - 12) * 4));
    }
    out
}

const V6_EXT_KINDS: [u8; 11] = [0, 60, 43, 44, 51, 50, 135, 139, 140, 253, 254];

fn gen_v6_ext(t: &mut Tape, kind: u8, next: u8, intent: &mut Intent) -> Vec<u8> {
    match kind {
        44 => {
            // fragment header
            let mut out = vec![next, t.u8_corner()];
            let off_flags = match t.weighted(&[6, 3, 3, 2]) {
                0 => 0u16,             // not fragmenting
                1 => 1,                // more fragments only
                2 => t.u16() & 0xfff8, // offset only
                _ => t.u16(),          // anything incl. reserved bits
            };
            out.extend_from_slice(&off_flags.to_be_bytes());
            out.extend_from_slice(&t.u32().to_be_bytes());
            out
        }
        51 => gen_auth_header(t, next, intent, "ah6"),
        _ => {
            // generic TLV-style extension header: len in 8-octet units not including the first 8
            let units = match t.weighted(&[10, 4, 1, 1]) {
                0 => 0,
                1 => t.below(4),
                2 => t.below(32),
                _ => 255,
            };
            let mode = match t.weighted(&[16, 2, 2, 1]) {
                0 => LenMode::Exact,
                1 => LenMode::Minus(1),
                2 => LenMode::Plus(1 + t.below(3)),
                _ => LenMode::Huge,
            };
            if mode != LenMode::Exact {
                intent.perturb.push(format!("len:ext{}:{}", kind, mode.label()));
            }
            let lf = match mode {
                LenMode::Exact => units,
                LenMode::Minus(k) => units.saturating_sub(k),
                LenMode::Plus(k) => units + k,
                _ => 255,
            }
            .min(255);
            let mut out = vec![next, lf as u8];
            let body = units * 8 + 6;
            if t.chance(1, 3) {
                // structured option area (RFC 8200 4.2 TLVs): jumbo payload (RFC 2675, 0xC2 0x04 + 32 bit
                // length below / at / above what really follows), router alert, PadN, Pad1, unknown
                // types with every action/change bit, lying option lengths
                intent.perturb.push(format!("ext{}:tlv-options", kind));
                let mut area: Vec<u8> = vec![];
                if t.chance(1, 2) {
                    let jl: u32 = match t.weighted(&[3, 2, 2, 2, 1]) {
                        0 => t.below(2048) as u32,
                        1 => 65_536 + t.below(64) as u32,
                        2 => t.below(64) as u32,
                        3 => u32::MAX - t.below(4) as u32,
                        _ => 0,
                    };
                    area.extend_from_slice(&[0xc2, 0x04]);
                    area.extend_from_slice(&jl.to_be_bytes());
                }
                while area.len() < body {
                    match t.weighted(&[3, 3, 2, 2, 1]) {
                        0 => area.push(0), // Pad1
                        1 => {
                            let n = t.below(6);
                            area.push(1);
                            area.push(n as u8);
                            area.extend(std::iter::repeat(0).take(n));
                        }
                        2 => area.extend_from_slice(&[0x05, 0x02, 0x00, t.u8()]), // router alert
                        3 => {
                            let n = t.below(8);
                            area.push(t.u8());
                            area.push(n as u8);
                            area.extend(t.bytes(n));
                        }
                        _ => {
                            // option length pointing behind the header
                            area.push(t.u8());
                            area.push(t.u8_corner());
                        }
                    }
                }
                area.truncate(body);
                out.extend(area);
            } else {
                let k = body.min(16);
                out.extend(t.bytes(k));
                out.extend(std::iter::repeat(0xee).take(body - k));
            }
            out
        }
    }
}

fn gen_ipv6(t: &mut Tape, tr: Transport, intent: &mut Intent, bounds: &mut Vec<usize>) -> Vec<u8> {
    intent.layers.push("ipv6".into());
    // extension chain
    let n_ext = match t.weighted(&[10, 6, 4, 2, 1]) {
        0 => 0,
        1 => 1,
        2 => 2,
        3 => 3 + t.below(2),
        _ => 5 + t.below(4),
    };
    let mut kinds: Vec<u8> = vec![];
    for i in 0..n_ext {
        let k = match t.weighted(&[10, 2, 1]) {
            // mostly RFC 8200 order-ish & decoded kinds
            0 => t.pick(&[60u8, 43, 44, 51, 0]),
            1 => {
                if i == 0 {
                    0
                } else {
                    t.pick(&V6_EXT_KINDS[..5])
                }
            }
            _ => t.pick(&V6_EXT_KINDS),
        };
        kinds.push(k);
    }
    let inner = gen_transport(t, tr, true, intent);
    if tr != Transport::None {
        intent.layers.push(tr.label().into());
    }
    // serialise the chain back to front
    let mut exts: Vec<Vec<u8>> = vec![];
    let mut next = if t.chance(1, 24) { t.u8() } else { tr.ip_number() };
    for k in kinds.iter().rev() {
        let e = gen_v6_ext(t, *k, next, intent);
        exts.push(e);
        next = *k;
    }
    exts.reverse();
    for k in &kinds {
        intent.layers.push(format!("ext:{}", k));
    }
    if kinds.len() >= 2 {
        let mut seen = vec![];
        for k in &kinds {
            if seen.contains(k) {
                intent.perturb.push("v6:dup-ext".into());
                break;
            }
            seen.push(*k);
        }
    }
    if kinds.iter().skip(1).any(|k| *k == 0) {
        intent.perturb.push("v6:hbh-not-first".into());
    }
    let ext_len: usize = exts.iter().map(|e| e.len()).sum();
    let exact = ext_len + inner.len();
    let mode = len_mode(t);
    if mode != LenMode::Exact {
        intent.perturb.push(format!("len:ipv6:{}", mode.label()));
    }
    let plen = apply_len(mode, exact, 0, 65535, t);
    let mut out = vec![];
    let vtf: u32 = (6u32 << 28) | (t.u32_corner() & 0x0fff_ffff);
    let vtf = if t.chance(1, 40) { (vtf & 0x0fff_ffff) | ((t.below(16) as u32) << 28) } else { vtf };
    out.extend_from_slice(&vtf.to_be_bytes());
    out.extend_from_slice(&(plen as u16).to_be_bytes());
    out.push(next);
    out.push(t.u8_corner()); // hop limit
    out.extend(t.bytes_corner(16));
    out.extend(t.bytes_corner(16));
    bounds.push(out.len());
    for e in exts {
        out.extend(e);
        bounds.push(out.len());
    }
    out.extend(inner);
    out
}

fn gen_ipv4(t: &mut Tape, tr: Transport, intent: &mut Intent, bounds: &mut Vec<usize>) -> Vec<u8> {
    intent.layers.push("ipv4".into());
    let ihl = match t.weighted(&[14, 3, 2, 1]) {
        0 => 5,
        1 => 6 + t.below(2),
        2 => 15,
        _ => t.below(16),
    };
    if ihl < 5 {
        intent.perturb.push("ipv4:ihl<5".into());
    }
    let opt_len = if ihl >= 5 { (ihl - 5) * 4 } else { 0 };
    let with_auth = t.chance(1, 6);
    let auth2 = with_auth && t.chance(1, 5);
    let inner = gen_transport(t, tr, false, intent);
    let mut after_hdr = vec![];
    let mut proto = if t.chance(1, 24) { t.u8() } else { tr.ip_number() };
    if with_auth {
        intent.layers.push("ah4".into());
        let mut p2 = proto;
        let mut second = vec![];
        if auth2 {
            intent.layers.push("ah4".into());
            second = gen_auth_header(t, proto, intent, "ah4b");
            p2 = 51;
        }
        after_hdr.extend(gen_auth_header(t, p2, intent, "ah4"));
        after_hdr.extend(second);
        proto = 51;
    }
    if tr != Transport::None {
        intent.layers.push(tr.label().into());
    }
    let auth_len = after_hdr.len();
    after_hdr.extend(inner);
    let hdr_len = 20 + opt_len;
    let exact = hdr_len + after_hdr.len();
    let mode = len_mode(t);
    if mode != LenMode::Exact {
        intent.perturb.push(format!("len:ipv4:{}", mode.label()));
    }
    let total = apply_len(mode, exact, hdr_len, 65535, t);
    let mut out = vec![];
    let version = if t.chance(1, 40) { t.below(16) as u8 } else { 4 };
    out.push((version << 4) | ihl as u8);
    out.push(t.u8_corner()); // dscp/ecn
    out.extend_from_slice(&(total as u16).to_be_bytes());
    out.extend_from_slice(&t.u16().to_be_bytes()); // id
    let frag = match t.weighted(&[10, 2, 2, 2, 1]) {
        0 => 0u16,
        1 => 0x4000,              // DF
        2 => 0x2000,              // MF
        3 => t.u16() & 0x1fff,    // offset
        _ => t.u16(),             // anything incl. reserved bit
    };
    if frag & 0x3fff != 0 {
        intent.perturb.push("ipv4:fragment".into());
    }
    out.extend_from_slice(&frag.to_be_bytes());
    out.push(t.u8_corner()); // ttl
    out.push(proto);
    out.extend_from_slice(&t.u16().to_be_bytes()); // checksum (not validated by decoding)
    out.extend(t.bytes_corner(4));
    out.extend(t.bytes_corner(4));
    out.extend(t.bytes(opt_len));
    bounds.push(out.len());
    if auth_len > 0 {
        bounds.push(out.len() + auth_len);
    }
    out.extend(after_hdr);
    out
}

fn gen_arp(t: &mut Tape, intent: &mut Intent) -> Vec<u8> {
    intent.layers.push("arp".into());
    let (hl, pl) = match t.weighted(&[10, 3, 1, 1]) {
        0 => (6usize, 4usize),
        1 => (t.below(20), t.below(20)),
        2 => (0, 0),
        _ => (255, 255),
    };
    let mut out = vec![];
    out.extend_from_slice(&(if t.chance(3, 4) { 1 } else { t.u16() }).to_be_bytes());
    out.extend_from_slice(&(if t.chance(3, 4) { 0x0800 } else { t.u16() }).to_be_bytes());
    out.push(hl as u8);
    out.push(pl as u8);
    out.extend_from_slice(&(if t.chance(3, 4) { 1 + t.below(2) as u16 } else { t.u16() }).to_be_bytes());
    let n = 2 * hl + 2 * pl;
    let k = n.min(24);
    out.extend(t.bytes(k));
    out.extend(std::iter::repeat(0xaa).take(n - k));
    out
}

/// network layer and below for a given ether type; returns the bytes
fn gen_net(t: &mut Tape, ether_type: u16, intent: &mut Intent, bounds: &mut Vec<usize>) -> Vec<u8> {
    let pick_transport = |t: &mut Tape| match t.weighted(&[8, 8, 4, 4, 2, 2]) {
        0 => Transport::Udp,
        1 => Transport::Tcp,
        2 => Transport::Icmpv4,
        3 => Transport::Icmpv6,
        4 => Transport::Other(if t.bool() { 2 } else { t.u8() }),
        _ => Transport::None,
    };
    match ether_type {
        ET_IPV4 => {
            let tr = pick_transport(t);
            gen_ipv4(t, tr, intent, bounds)
        }
        ET_IPV6 => {
            let tr = pick_transport(t);
            gen_ipv6(t, tr, intent, bounds)
        }
        ET_ARP => gen_arp(t, intent),
        _ => {
            intent.layers.push("payload".into());
            gen_payload(t)
        }
    }
}

fn pick_net_ether_type(t: &mut Tape) -> u16 {
    match t.weighted(&[10, 10, 2, 2, 1]) {
        0 => ET_IPV4,
        1 => ET_IPV6,
        2 => ET_ARP,
        3 => t.pick(&[0x88cc_u16, 0x8847, 0x0000, 0xffff, 0x0801, 0x86dc]),
        _ => t.u16(),
    }
}

#[derive(Clone, Copy)]
enum LinkExt {
    Vlan(u16),
    Macsec,
}

/// Everything behind the link header for a given first ether type is produced here: returns
/// (first ether type, bytes)
fn gen_after_link(t: &mut Tape, intent: &mut Intent, bounds: &mut Vec<usize>, base: usize) -> (u16, Vec<u8>) {
    let n_ext = match t.weighted(&[10, 6, 4, 2, 1]) {
        0 => 0,
        1 => 1,
        2 => 2,
        3 => 3,
        _ => 4,
    };
    let mut exts = vec![];
    for _ in 0..n_ext {
        exts.push(if t.weighted(&[3, 2]) == 0 { LinkExt::Vlan(t.pick(&[ET_VLAN, ET_QINQ, ET_VLAN2])) } else { LinkExt::Macsec });
    }
    let net_et = pick_net_ether_type(t);
    // serialise inner first
    let mut inner_bounds = vec![];
    let mut body = gen_net(t, net_et, intent, &mut inner_bounds);
    let net_layers: Vec<String> = intent.layers.drain(..).collect();
    let mut cur_et = if t.chance(1, 24) { t.u16() } else { net_et };
    let mut ext_layers = vec![];
    // sizes of the ext headers, to compute boundaries afterwards
    let mut hdr_sizes = vec![];
    for e in exts.iter().rev() {
        match e {
            LinkExt::Vlan(tpid) => {
                let mut h = vec![];
                let tci = t.u16_corner();
                h.extend_from_slice(&tci.to_be_bytes());
                h.extend_from_slice(&cur_et.to_be_bytes());
                hdr_sizes.push(h.len());
                h.extend(body);
                body = h;
                cur_et = *tpid;
                ext_layers.push("vlan".to_string());
            }
            LinkExt::Macsec => {
                // TCI: V ES SC SCB E C AN
                let tci = match t.weighted(&[8, 3, 3, 2]) {
                    0 => t.u8() & 0x03,                  // unmodified, no SCI
                    1 => 0x20 | (t.u8() & 0x53),         // SCI present, unmodified
                    2 => (t.u8() & 0x7f) | 0x04,         // modified / encrypted variants
                    _ => t.u8(),                         // anything incl. version bit
                };
                let unmodified = tci & 0x0c == 0;
                let sci = tci & 0x20 != 0;
                // bytes following the sectag that the short length counts
                let counted = body.len() + if unmodified { 2 } else { 0 };
                let exact_sl = if counted < 64 { counted } else { 0 };
                let mode = match t.weighted(&[14, 3, 3, 3, 1, 1, 1]) {
                    0 => LenMode::Exact,
                    1 => LenMode::Zero,
                    2 => LenMode::Minus(1 + t.below(3)),
                    3 => LenMode::Plus(1 + t.below(3)),
                    4 => LenMode::BelowHeader, // 1
                    5 => LenMode::Huge,        // 63
                    _ => LenMode::Minus(counted.saturating_sub(2)), // 2
                };
                if mode != LenMode::Exact {
                    intent.perturb.push(format!("len:macsec:{}", mode.label()));
                }
                let sl = match mode {
                    LenMode::Exact => exact_sl,
                    LenMode::Zero => 0,
                    LenMode::Minus(k) => counted.min(63).saturating_sub(k),
                    LenMode::Plus(k) => (counted + k).min(63),
                    LenMode::BelowHeader => 1,
                    LenMode::Huge => 63,
                };
                let b1 = (sl as u8 & 0x3f) | (t.u8() & 0xc0 & if t.chance(1, 8) { 0xff } else { 0 });
                let mut h = vec![tci, b1];
                h.extend_from_slice(&t.u32_corner().to_be_bytes());
                if sci {
                    h.extend(t.bytes(8));
                }
                if unmodified {
                    h.extend_from_slice(&cur_et.to_be_bytes());
                }
                hdr_sizes.push(h.len());
                h.extend(body);
                body = h;
                cur_et = ET_MACSEC;
                ext_layers.push(if unmodified { "macsec".to_string() } else { "macsec-mod".to_string() });
            }
        }
    }
    ext_layers.reverse();
    hdr_sizes.reverse();
    let mut off = base;
    bounds.push(off);
    for s in &hdr_sizes {
        off += s;
        bounds.push(off);
    }
    for b in inner_bounds {
        bounds.push(off + b);
    }
    intent.layers.extend(ext_layers);
    intent.layers.extend(net_layers);
    (cur_et, body)
}

/// `gen_packet` with the rare big payloads switched on (see `ALLOW_BIG`)
pub fn gen_packet_big(t: &mut Tape) -> GenPacket {
    ALLOW_BIG.with(|b| b.set(true));
    let p = gen_packet(t);
    ALLOW_BIG.with(|b| b.set(false));
    p
}

pub fn gen_packet(t: &mut Tape) -> GenPacket {
    let mut intent = Intent::default();
    let mut bounds: Vec<usize> = vec![];

    // whole-packet noise
    if t.chance(1, 20) {
        let start = match t.below(4) {
            0 => Start::Ethernet,
            1 => Start::Ip,
            2 => Start::EtherType(if t.bool() { t.pick(&INTERESTING_ETHER_TYPES) } else { t.u16() }),
            _ => Start::LinuxSll,
        };
        let n = match t.weighted(&[6, 3, 1]) {
            0 => t.below(64),
            1 => t.below(300),
            _ => t.below(2049),
        };
        let k = n.min(96);
        let mut bytes = t.bytes(k);
        let fill = t.u8();
        bytes.extend(std::iter::repeat(fill).take(n - k));
        if !bytes.is_empty() && t.bool() {
            // valid first nibble for IP starts so that noise gets past the first check
            if start == Start::Ip {
                bytes[0] = (bytes[0] & 0x0f) | if t.bool() { 0x40 } else { 0x60 };
            }
        }
        intent.perturb.push("noise".into());
        intent.layers.push("noise".into());
        return GenPacket { start, bytes, intent };
    }

    let start_kind = t.weighted(&[6, 4, 3, 2]);
    let (start, mut bytes) = match start_kind {
        0 => {
            let (et, body) = gen_after_link(t, &mut intent, &mut bounds, 14);
            let mut b = t.bytes_corner(6);
            b.extend(t.bytes_corner(6));
            b.extend_from_slice(&et.to_be_bytes());
            b.extend(body);
            intent.layers.insert(0, "eth".into());
            (Start::Ethernet, b)
        }
        1 => {
            let et = if t.bool() { ET_IPV4 } else { ET_IPV6 };
            let tr = match t.weighted(&[8, 8, 4, 4, 2, 2]) {
                0 => Transport::Udp,
                1 => Transport::Tcp,
                2 => Transport::Icmpv4,
                3 => Transport::Icmpv6,
                4 => Transport::Other(if t.bool() { 2 } else { t.u8() }),
                _ => Transport::None,
            };
            bounds.push(0);
            let b = if et == ET_IPV4 { gen_ipv4(t, tr, &mut intent, &mut bounds) } else { gen_ipv6(t, tr, &mut intent, &mut bounds) };
            (Start::Ip, b)
        }
        2 => {
            let (et, body) = gen_after_link(t, &mut intent, &mut bounds, 0);
            (Start::EtherType(et), body)
        }
        _ => {
            let (et, body) = gen_after_link(t, &mut intent, &mut bounds, 16);
            let mut b = vec![];
            let ptype = if t.chance(7, 8) { t.below(8) as u16 } else { t.u16() };
            b.extend_from_slice(&ptype.to_be_bytes());
            let hw = match t.weighted(&[10, 4, 1]) {
                0 => 1u16,
                1 => t.pick(&[824u16, 778, 803, 770]),
                _ => t.u16(),
            };
            b.extend_from_slice(&hw.to_be_bytes());
            b.extend_from_slice(&(if t.chance(3, 4) { t.below(9) as u16 } else { t.u16() }).to_be_bytes());
            b.extend(t.bytes(8));
            // protocol type: mostly the ether type of what follows; sometimes one of the Linux
            // non-standard values (0x0001..0x001c, 0x00f5..0x00fa) or their neighbours
            let proto = if t.chance(1, 8) {
                intent.perturb.push("sll:nonstandard-proto".into());
                t.pick(&[0x0000u16, 0x0001, 0x0003, 0x0009, 0x000a, 0x000b, 0x000c, 0x000e, 0x000f, 0x0010, 0x0011, 0x0012, 0x0015, 0x001c, 0x001d, 0x00f4, 0x00f5, 0x00fa, 0x00fb])
            } else {
                et
            };
            b.extend_from_slice(&proto.to_be_bytes());
            b.extend(body);
            intent.layers.insert(0, "sll".into());
            (Start::LinuxSll, b)
        }
    };

    // trailing bytes
    if t.chance(3, 10) {
        let n = 1 + t.below(16);
        bytes.extend(t.bytes(n));
        intent.perturb.push("trailing".into());
    }
    bounds.push(bytes.len());
    // truncation
    if t.chance(3, 10) && !bytes.is_empty() {
        let pos = if t.bool() || bounds.is_empty() {
            t.below(bytes.len() + 1)
        } else {
            let b = t.pick(&bounds);
            let d = t.below(5) as isize - 2;
            (b as isize + d).clamp(0, bytes.len() as isize) as usize
        };
        if pos < bytes.len() {
            bytes.truncate(pos);
            intent.perturb.push("trunc".into());
        }
    }
    // byte flips biased to header bytes
    if t.chance(3, 20) && !bytes.is_empty() {
        let n = 1 + t.below(3);
        for _ in 0..n {
            let lim = if t.chance(3, 4) { bytes.len().min(80) } else { bytes.len() };
            let i = t.below(lim);
            bytes[i] ^= 1u8 << t.below(8);
        }
        intent.perturb.push("flip".into());
    }
    let cap = if ALLOW_BIG.with(|b| b.get()) { 70_000 } else { 4096 };
    if bytes.len() > cap {
        bytes.truncate(cap);
    }
    intent.boundaries = bounds;
    GenPacket { start, bytes, intent }
}

/// Golden (unperturbed, fully consistent) packets used for the truncation sweep and as fuzz seeds.
pub fn golden_packets() -> Vec<(Start, Vec<u8>)> {
    let mut out = vec![];
    let seedtape = |seed: u8, len: usize| -> Vec<u8> { (0..len).map(|i| (i as u8).wrapping_mul(seed).wrapping_add(seed >> 1)).collect() };
    // a few deterministic tapes; only keep packets that came out without perturbation
    for seed in 1..=200u8 {
        let tp = seedtape(seed, 400);
        let mut t = Tape::new(&tp);
        let p = gen_packet(&mut t);
        if p.intent.perturb.is_empty() && p.bytes.len() >= 20 && p.bytes.len() <= 600 {
            out.push((p.start, p.bytes));
        }
        if out.len() >= 24 {
            break;
        }
    }
    out
}


/// A TCP option area or an NDP option area made of valid options, then perturbed: one option's length
/// byte changed to a lying value and/or the area cut short. Returns (bytes, is_tcp).
pub fn gen_tlv_area(t: &mut Tape) -> (Vec<u8>, bool) {
    let is_tcp = t.bool();
    let mut out: Vec<u8> = vec![];
    let mut starts: Vec<usize> = vec![];
    let n = 1 + t.below(6);
    for _ in 0..n {
        starts.push(out.len());
        if is_tcp {
            tcp_option(t, &mut out);
        } else {
            let kind = t.pick(&[1u8, 2, 3, 4, 5, 14, 200]);
            let units = match kind {
                1 | 2 | 5 => 1,
                3 => 4,
                _ => 1 + t.below(3),
            };
            out.push(kind);
            out.push(units as u8);
            out.extend(t.bytes(units * 8 - 2));
        }
    }
    if t.chance(2, 3) {
        // lie in the length byte of one option (TCP: byte 1 of kinds >= 2; NDP: byte 1)
        let i = starts[t.below(starts.len())];
        if i + 1 < out.len() && (!is_tcp || out[i] >= 2) {
            let cur = out[i + 1];
            out[i + 1] = match t.below(8) {
                0 => 0,
                1 => 1,
                2 => 2,
                3 => 3,
                4 => cur.wrapping_sub(1),
                5 => cur.wrapping_add(1),
                6 => cur.wrapping_add(8),
                _ => 255,
            };
            if t.chance(2, 3) {
                // cut the area shortly behind the lying option header
                let keep = (i + 2 + t.below(9)).min(out.len());
                out.truncate(keep);
            }
        }
    } else if t.chance(1, 2) && !out.is_empty() {
        let keep = t.below(out.len() + 1);
        out.truncate(keep);
    }
    (out, is_tcp)
}
