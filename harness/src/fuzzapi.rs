//! Entry points for the coverage-guided fuzz targets in /verif/fuzz (thorough tier): the same
//! oracles as the proptest-driven checks, run in-process on libFuzzer's input.

use crate::engine::*;
use crate::gen::packet::*;
use crate::props::c01::Case;
use crate::tape::Tape;
use std::sync::OnceLock;

pub struct FuzzCfg {
    pub oracle: String,
    pub known: Vec<KnownFinding>,
}

fn cfg() -> &'static FuzzCfg {
    static C: OnceLock<FuzzCfg> = OnceLock::new();
    C.get_or_init(|| {
        let root = std::path::PathBuf::from(std::env::var("EPVERIF_ROOT").unwrap_or_else(|_| "/verif".into()));
        install_panic_hook_quiet();
        FuzzCfg { oracle: std::env::var("VERIF_ORACLE").unwrap_or_else(|_| "C01".into()), known: load_known(&root) }
    })
}

/// raw target: first byte selects the start point, bytes 1..3 the ether type (for that start), rest = packet bytes
pub fn decode_raw_input(data: &[u8]) -> (Start, &[u8], Vec<usize>) {
    if data.is_empty() {
        return (Start::Ip, data, vec![0]);
    }
    let (start, rest) = match data[0] & 3 {
        0 => (Start::Ethernet, &data[1..]),
        1 => (Start::Ip, &data[1..]),
        2 => (Start::LinuxSll, &data[1..]),
        _ => {
            if data.len() >= 3 {
                (Start::EtherType(u16::from_be_bytes([data[1], data[2]])), &data[3..])
            } else {
                (Start::EtherType(0x0800), &data[1..])
            }
        }
    };
    // a second decode offset derived from the input so that inner layers are reached by single-layer decoders
    let mut ranges = vec![0usize];
    let extra = (data[0] >> 2) as usize;
    if extra > 0 && extra < rest.len() {
        ranges.push(extra);
    }
    (start, rest, ranges)
}

/// Run the selected oracle; a failure (that is not a listed known finding) is returned.
pub fn run_oracle(start: Start, bytes: &[u8], ranges: &[usize]) -> Result<(), Failure> {
    let c = cfg();
    let id: &str = &c.oracle;
    let mut ctx = Ctx::new(Tier::Thorough, 0, &c.known, id);
    match id {
        "C01" | "C02" => {
            let case = Case { start, bytes: bytes.to_vec(), ranges: ranges.to_vec(), layers: vec![], perturb: vec![], kind: "fuzz" };
            if id == "C01" {
                crate::props::c01::c01_check_asan(&case, &mut ctx)
            } else {
                crate::props::c01::c02_check(&case, &mut ctx)
            }
        }
        "C03" => crate::props::c03::check(start, bytes, &mut ctx),
        "C04" => crate::props::c04::check(start, bytes, &mut ctx),
        "C05" => crate::props::c05::check(start, bytes, &mut ctx),
        "C06" => crate::props::c06::check(start, bytes, ranges, &mut ctx),
        "C07" => crate::props::c07::check(start, bytes, &mut ctx),
        _ => Ok(()),
    }
}

pub fn fuzz_raw(data: &[u8]) {
    let (start, bytes, ranges) = decode_raw_input(data);
    if let Err(f) = run_oracle(start, bytes, &ranges) {
        report(&f);
    }
}

pub fn fuzz_tape(data: &[u8]) {
    let mut t = Tape::new(data);
    let p = gen_packet(&mut t);
    let mut ranges = vec![0usize];
    for b in &p.intent.boundaries {
        if *b < p.bytes.len() && !ranges.contains(b) && ranges.len() < 5 {
            ranges.push(*b);
        }
    }
    if let Err(f) = run_oracle(p.start, &p.bytes, &ranges) {
        report(&f);
    }
}

/// Generic structure-aware target: the input is the entropy tape of the property selected with
/// VERIF_ORACLE (any of the 17) - exactly what the proptest-driven part of that check generates - so
/// libFuzzer's coverage feedback (the crate is instrumented) steers the same generators and oracles.
pub fn fuzz_prop_tape(data: &[u8]) {
    thread_local! {
        static P: Option<Box<dyn crate::engine::Property>> = crate::props::by_id(&cfg().oracle);
    }
    let c = cfg();
    P.with(|p| {
        let prop = match p {
            Some(p) => p,
            None => return,
        };
        let mut ctx = Ctx::new(Tier::Thorough, 0, &c.known, prop.id());
        ctx.counting = false;
        let r = run_guarded(prop.as_ref(), &mut ctx, |c| prop.run_tape(data, c), || serde_json::json!({"tape_hex": crate::tape::hex(data)}));
        if let Err(f) = r {
            report(&f);
        }
    })
}

fn report(f: &Failure) -> ! {
    // the driver parses this line from the fuzzer's output
    eprintln!("EPVERIF-ORACLE-FAILURE {}", serde_json::json!({"signature": f.signature, "clause": f.clause, "detail": f.detail, "input": f.input}));
    std::process::abort();
}

// ------------------------------------------------------------------------------------------------
// driver side: run a libFuzzer campaign (thorough tier) and convert any finding into a Failure

use serde_json::{json, Value};
use std::path::Path;
use std::process::{Command, Stdio};

fn concretize(target: &str, data: &[u8]) -> Value {
    if target == "prop_tape" {
        return json!({"tape_hex": crate::tape::hex(data)});
    }
    if target == "decode_raw" {
        let (start, bytes, ranges) = decode_raw_input(data);
        json!({"start": start.to_json(), "bytes_hex": crate::tape::hex(bytes), "ranges": ranges})
    } else {
        let mut t = Tape::new(data);
        let p = gen_packet(&mut t);
        let mut ranges = vec![0usize];
        for b in &p.intent.boundaries {
            if *b < p.bytes.len() && !ranges.contains(b) && ranges.len() < 5 {
                ranges.push(*b);
            }
        }
        json!({"start": p.start.to_json(), "bytes_hex": crate::tape::hex(&p.bytes), "ranges": ranges})
    }
}

/// Seeds for a fresh corpus: golden packets (raw) / short deterministic tapes (tape).
fn write_seed_corpus(target: &str, dir: &Path, committed: &Path) {
    let _ = std::fs::create_dir_all(dir);
    if let Ok(rd) = std::fs::read_dir(committed) {
        for e in rd.flatten() {
            let _ = std::fs::copy(e.path(), dir.join(e.file_name()));
        }
    }
    if target == "decode_raw" {
        for (i, (start, bytes)) in golden_packets().iter().enumerate() {
            let mut v = vec![];
            match start {
                Start::Ethernet => v.push(0u8),
                Start::Ip => v.push(1),
                Start::LinuxSll => v.push(2),
                Start::EtherType(e) => {
                    v.push(3);
                    v.extend_from_slice(&e.to_be_bytes());
                }
            }
            v.extend_from_slice(bytes);
            let _ = std::fs::write(dir.join(format!("golden{}", i)), v);
        }
    } else {
        for seed in 1..=24u8 {
            let tp: Vec<u8> = (0..300).map(|i| (i as u8).wrapping_mul(seed).wrapping_add(seed >> 1)).collect();
            let _ = std::fs::write(dir.join(format!("tape{}", seed)), tp);
        }
    }
}

pub fn run_fuzz_campaign(id: &str, root: &Path, seed: u64, runs_per_job: u64, jobs: u32) -> Result<Value, Failure> {
    // C03-C07 also get the generic target: their own run_tape adds case kinds the two packet targets do
    // not produce (big payloads next to 2^15/2^16, structured option areas, extra decode offsets);
    // C01/C02's run_tape walks three placements per case and is too slow under ASan
    if matches!(id, "C01" | "C02") {
        run_fuzz_campaign_on(id, root, seed, runs_per_job, jobs, &["decode_tape", "decode_raw"], 768)
    } else {
        run_fuzz_campaign_on(id, root, seed, runs_per_job, jobs, &["decode_tape", "decode_raw", "prop_tape"], 640)
    }
}

/// Campaign on the generic `prop_tape` target (thorough tier of C08-C17): `tape_len` is the property's
/// maximum tape length (longer inputs would only be ignored by the generators).
pub fn run_prop_fuzz_campaign(id: &str, root: &Path, seed: u64, runs_per_job: u64, jobs: u32, tape_len: usize) -> Result<Value, Failure> {
    run_fuzz_campaign_on(id, root, seed, runs_per_job, jobs, &["prop_tape"], tape_len)
}

fn run_fuzz_campaign_on(id: &str, root: &Path, seed: u64, runs_per_job: u64, jobs: u32, targets: &[&str], tape_max_len: usize) -> Result<Value, Failure> {
    let harness = root.join("harness");
    let t0 = std::time::Instant::now();
    // (re)build against the current /repo tree
    let b = Command::new("cargo").args(["+nightly", "fuzz", "build"]).current_dir(&harness).env("CARGO_NET_OFFLINE", "true").stdin(Stdio::null()).output();
    match b {
        Ok(o) if o.status.success() => {}
        Ok(o) => {
            let e = String::from_utf8_lossy(&o.stderr);
            return Ok(json!({"fuzz": {"skipped": format!("cargo fuzz build failed: {}", e.lines().last().unwrap_or(""))}}));
        }
        Err(e) => return Ok(json!({"fuzz": {"skipped": format!("cargo fuzz not runnable: {}", e)}})),
    }
    let mut report = vec![];
    for &target in targets {
        let bin = harness.join("fuzz/target/x86_64-unknown-linux-gnu/release").join(target);
        if !bin.exists() {
            return Ok(json!({"fuzz": {"skipped": format!("{} not built", bin.display())}}));
        }
        let work = root.join(".work").join(id).join(format!("fuzz_{}", target));
        let _ = std::fs::remove_dir_all(&work);
        let mut children = vec![];
        for j in 0..jobs {
            let corpus = work.join(format!("corpus{}", j));
            write_seed_corpus(target, &corpus, &root.join("corpus").join(target));
            let art = work.join(format!("artifacts{}", j));
            let _ = std::fs::create_dir_all(&art);
            let log = std::fs::File::create(work.join(format!("log{}.txt", j))).expect("log");
            let child = Command::new(&bin)
                .arg(&corpus)
                .arg(format!("-runs={}", runs_per_job))
                .arg(format!("-seed={}", seed.wrapping_mul(131).wrapping_add(j as u64 + 1)))
                .arg(match target { "decode_raw" => "-max_len=2048".to_string(), "decode_tape" => "-max_len=768".to_string(), _ => format!("-max_len={}", tape_max_len) })
                .arg("-len_control=0")
                .arg("-timeout=30")
                .arg("-rss_limit_mb=4096")
                .arg(format!("-artifact_prefix={}/", art.display()))
                .env("VERIF_ORACLE", id)
                .env("EPVERIF_ROOT", root)
                .env("ASAN_OPTIONS", "detect_leaks=0:abort_on_error=1")
                .stdin(Stdio::null())
                .stdout(Stdio::null())
                .stderr(Stdio::from(log))
                .spawn()
                .expect("spawn fuzzer");
            children.push((j, child, art));
        }
        let mut execs = 0u64;
        for (j, mut child, art) in children {
            let st = child.wait().expect("wait fuzzer");
            let log = std::fs::read_to_string(work.join(format!("log{}.txt", j))).unwrap_or_default();
            for l in log.lines() {
                if let Some(r) = l.strip_prefix("Done ") {
                    execs += r.split(' ').next().and_then(|x| x.parse::<u64>().ok()).unwrap_or(0);
                }
            }
            if !st.success() {
                // oracle failure reported by the target?
                if let Some(l) = log.lines().find(|l| l.starts_with("EPVERIF-ORACLE-FAILURE ")) {
                    if let Ok(v) = serde_json::from_str::<Value>(&l["EPVERIF-ORACLE-FAILURE ".len()..]) {
                        return Err(Failure::new(v["signature"].as_str().unwrap_or("?"), v["clause"].as_str().unwrap_or("?"), format!("found by libFuzzer target {}: {}", target, v["detail"].as_str().unwrap_or("")), v["input"].clone()));
                    }
                }
                // sanitizer / abort / timeout: take the artifact
                let mut data = vec![];
                let mut kind = "crash".to_string();
                if let Ok(rd) = std::fs::read_dir(&art) {
                    for e in rd.flatten() {
                        let n = e.file_name().to_string_lossy().to_string();
                        if n.starts_with("crash-") || n.starts_with("timeout-") || n.starts_with("oom-") {
                            data = std::fs::read(e.path()).unwrap_or_default();
                            kind = n.split('-').next().unwrap_or("crash").to_string();
                            break;
                        }
                    }
                }
                let summary = log.lines().rev().find(|l| l.contains("SUMMARY:") || l.contains("EPVERIF-PANIC")).unwrap_or("").to_string();
                if kind == "timeout" && id == "C02" && !data.is_empty() {
                    // C02 names hangs: the input libFuzzer gave up on (30 s; executions take milliseconds) is
                    // run once more alone; if a fresh process does not finish it within 60 s either, it is a
                    // violation with that concrete input, otherwise it decides nothing
                    let tmp = work.join(format!("timeout-confirm-{}", j));
                    let _ = std::fs::write(&tmp, &data);
                    let mut child = Command::new(&bin)
                        .arg(&tmp)
                        .env("VERIF_ORACLE", id)
                        .env("EPVERIF_ROOT", root)
                        .env("ASAN_OPTIONS", "detect_leaks=0:abort_on_error=1")
                        .arg("-timeout=0")
                        .stdin(Stdio::null())
                        .stdout(Stdio::null())
                        .stderr(Stdio::null())
                        .spawn()
                        .expect("spawn confirm");
                    let t1 = std::time::Instant::now();
                    let mut finished = false;
                    while t1.elapsed() < std::time::Duration::from_secs(60) {
                        if let Ok(Some(_)) = child.try_wait() {
                            finished = true;
                            break;
                        }
                        std::thread::sleep(std::time::Duration::from_millis(50));
                    }
                    if !finished {
                        let _ = child.kill();
                        let _ = child.wait();
                        return Err(Failure::new(format!("C02|hang|fuzz:{}", target), "every call terminates", format!("libFuzzer target {} gave up on this input after 30 s and a fresh process does not finish it within 60 s either (executions take milliseconds)", target), concretize(target, &data)));
                    }
                    return Ok(json!({"fuzz": {"inconclusive": format!("timeout in target {} that does not reproduce in a fresh process", target)}}));
                }
                if kind == "timeout" || kind == "oom" {
                    return Ok(json!({"fuzz": {"inconclusive": format!("{} in target {}: {}", kind, target, summary)}}));
                }
                let tail: String = log.lines().rev().take(6).collect::<Vec<_>>().into_iter().rev().collect::<Vec<_>>().join(" | ").chars().take(600).collect();
                if data.is_empty() {
                    // the fuzzer process ended unsuccessfully but left neither an artifact nor an oracle
                    // report (killed from outside, resource trouble ...): nothing to judge
                    return Ok(json!({"fuzz": {"inconclusive": format!("target {} job {} exited with {:?} without an artifact; log tail: {}", target, j, st, tail)}}));
                }
                // confirm: the artifact alone must kill a fresh fuzzer process again
                let again = Command::new(&bin)
                    .arg(art.join(std::fs::read_dir(&art).ok().and_then(|mut d| d.find_map(|e| e.ok().map(|e| e.file_name()).filter(|n| n.to_string_lossy().starts_with("crash-")))).unwrap_or_default()))
                    .env("VERIF_ORACLE", id)
                    .env("EPVERIF_ROOT", root)
                    .env("ASAN_OPTIONS", "detect_leaks=0:abort_on_error=1")
                    .stdin(Stdio::null())
                    .stdout(Stdio::null())
                    .stderr(Stdio::null())
                    .status();
                if matches!(again, Ok(s2) if s2.success()) {
                    return Ok(json!({"fuzz": {"inconclusive": format!("target {} job {} died ({}) but its artifact passes in a fresh process; log tail: {}", target, j, summary, tail)}}));
                }
                let what: String = summary.split("panicked at: ").nth(1).unwrap_or(&summary).chars().take(140).collect();
                return Err(Failure::new(format!("{}|fuzz-{}|{}", id, kind, what), "worker survives (libFuzzer + AddressSanitizer)", format!("libFuzzer target {} died: {}", target, summary), concretize(target, &data)));
            }
        }
        report.push(json!({"target": target, "jobs": jobs, "runs_per_job": runs_per_job, "executions": execs, "sanitizer": "AddressSanitizer + debug assertions"}));
    }
    Ok(json!({"fuzz": {"campaigns": report, "wall_s": t0.elapsed().as_secs_f64(), "oracle": id}}))
}
