#![no_main]
//! Raw-byte target: byte 0 selects the start point (and a second decode offset), the rest is the packet.
//! The oracle is selected with VERIF_ORACLE=<C01..C07>; a failure aborts with an EPVERIF-ORACLE-FAILURE line.
use libfuzzer_sys::fuzz_target;
fuzz_target!(|data: &[u8]| {
    epverif::fuzzapi::fuzz_raw(data);
});
