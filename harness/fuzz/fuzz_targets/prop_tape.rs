#![no_main]
//! Generic structure-aware target: the input is the entropy tape of the property selected with
//! VERIF_ORACLE=<C01..C17> (the same generators and oracles the proptest-driven check uses).
use libfuzzer_sys::fuzz_target;
fuzz_target!(|data: &[u8]| {
    epverif::fuzzapi::fuzz_prop_tape(data);
});
