#![no_main]
//! Structure-aware target: the input is an entropy tape for the packet grammar (harness/src/gen/packet.rs).
use libfuzzer_sys::fuzz_target;
fuzz_target!(|data: &[u8]| {
    epverif::fuzzapi::fuzz_tape(data);
});
