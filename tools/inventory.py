#!/usr/bin/env python3
"""Inventory of public decoding entry points of /repo/etherparse versus the harness registry.

usage: tools/inventory.py [--json] [repo_root]

Greps the non-test part of every source file for `pub fn` items inside `impl` blocks that take bytes
(`&[u8]`, `&'a [u8]`, `[u8; N]`) or a reader (`T: Read`, `LimitedReader`) and return something decoded,
and compares `Type::function` with the names that appear as string literals in
harness/src/obs/{entries,walk}.rs and harness/src/props/*.rs.  A function present in the repository
but absent from the registry is printed (and embedded as `coverage.unregistered` in the C01/C02
evidence), so an API added later is noticed rather than silently left out.  Purely informational:
never changes a verdict.
"""
import json, os, re, sys

ROOT = os.path.dirname(os.path.dirname(os.path.abspath(__file__)))
args = [a for a in sys.argv[1:] if not a.startswith("--")]
REPO = args[0] if args else os.environ.get("EPVERIF_REPO", "/repo")
SRC = os.path.join(REPO, "etherparse", "src")

# functions that are decoders by signature but deliberately not registered, with the reason
WAIVED = {
    # private-in-practice or not decoders
    "LimitedReader::new": "constructor, no decoding",
    "LimitedReader::read_exact": "exercised through every read_limited entry",
    "LaxSlicedPacketCursor::parse_from_ethernet2": "crate-private type; reached through LaxSlicedPacket::from_ethernet",
    "LaxSlicedPacketCursor::parse_from_ether_type": "crate-private type; reached through LaxSlicedPacket::from_ether_type",
    "LaxSlicedPacketCursor::parse_from_ip": "crate-private type; reached through LaxSlicedPacket::from_ip",
}

FN = re.compile(r"^\s*pub\s+(?:const\s+)?(?:unsafe\s+)?fn\s+([a-z_0-9]+)\s*(<[^>]*>)?\s*\(([^)]*)\)\s*(->\s*[^{;]+)?", re.S)
IMPL = re.compile(r"^\s*impl\s*(<[^>]*>)?\s*(?:[A-Za-z0-9_:<>', ]+\s+for\s+)?([A-Za-z0-9_]+)")


def non_test(text):
    i = text.find("#[cfg(test)]")
    return text if i < 0 else text[:i]


def takes_bytes(params, generics):
    p = params.replace("\n", " ")
    if re.search(r"&\s*('[a-z]+\s+)?\[u8\]", p):
        return True
    if re.search(r":\s*\[u8;\s*[A-Za-z0-9_:]+\]", p) and "self" not in p:
        return True
    if re.search(r"Read\b", (generics or "") + p) or "LimitedReader" in p:
        return True
    return False


def scan():
    found = {}
    for dp, _, fs in os.walk(SRC):
        for f in fs:
            if not f.endswith(".rs"):
                continue
            path = os.path.join(dp, f)
            text = non_test(open(path, encoding="utf-8").read())
            lines = text.split("\n")
            cur, depth, impl_depth = None, 0, None
            i = 0
            while i < len(lines):
                line = lines[i]
                code = line.split("//")[0]
                m = IMPL.match(code)
                if m and impl_depth is None and depth == 0:
                    cur, impl_depth = m.group(2), depth
                if cur and re.match(r"^\s*pub\s+(const\s+)?(unsafe\s+)?fn\s", code):
                    # join until the opening brace / semicolon
                    j, sig = i, code
                    while "{" not in sig and ";" not in sig and j + 1 < len(lines):
                        j += 1
                        sig += " " + lines[j].split("//")[0]
                    fm = FN.match(sig)
                    if fm:
                        name, gen, params, ret = fm.group(1), fm.group(2), fm.group(3), fm.group(4) or ""
                        wherec = sig[fm.end(3):]
                        if "self" not in params.split(",")[0] and takes_bytes(params, (gen or "") + wherec):
                            if "unsafe fn" not in sig and "write" not in name and not name.startswith("calc_") \
                               and not name.startswith("with_") and "checksum" not in name and name not in ("new",):
                                found[f"{cur}::{name}"] = os.path.relpath(path, REPO)
                depth += code.count("{") - code.count("}")
                if impl_depth is not None and depth <= impl_depth and "}" in code:
                    cur, impl_depth = None, None
                i += 1
    return found


def registry():
    names = set()
    hs = os.path.join(ROOT, "harness", "src")
    for dp, _, fs in os.walk(hs):
        for f in fs:
            if f.endswith(".rs"):
                t = open(os.path.join(dp, f), encoding="utf-8").read()
                for m in re.finditer(r"\b([A-Z][A-Za-z0-9_]+)::([a-z_0-9]+)", t):
                    names.add(f"{m.group(1)}::{m.group(2)}")
    return names


def main():
    found = scan()
    reg = registry()
    missing = {k: v for k, v in sorted(found.items()) if k not in reg and k not in WAIVED}
    out = {
        "decoders_in_repo": len(found),
        "registered": len([k for k in found if k in reg]),
        "waived": {k: WAIVED[k] for k in found if k in WAIVED},
        "unregistered": [f"{k} ({v})" for k, v in missing.items()],
    }
    if "--json" in sys.argv:
        print(json.dumps(out))
    else:
        print(f"decoders found in {REPO}: {out['decoders_in_repo']}, registered: {out['registered']}, waived: {len(out['waived'])}")
        for u in out["unregistered"]:
            print("UNREGISTERED", u)


main()
