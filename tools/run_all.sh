#!/bin/bash
# usage: tools/run_all.sh <quick|thorough> [seed]   runs every check, prints one line each
TIER=${1:-quick}; export VERIF_SEED=${2:-0}
cd "$(dirname "$0")/.."
for id in C01 C02 C03 C04 C05 C06 C07 C08 C09 C10 C11 C12 C13 C14 C15 C16 C17; do
  s=$(date +%s.%N); out=$(./check $id $TIER 2>&1); rc=$?; e=$(date +%s.%N)
  printf "%s rc=%d %.1fs %s\n" $id $rc $(echo "$e - $s" | bc) "$(echo "$out" | grep -E "^C[0-9]+ (quick|thorough)" | cut -c1-160)"
  echo "$out" | grep -E "^VIOLATION|^INCONCLUSIVE|^BUILD" | head -5
done
