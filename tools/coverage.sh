#!/bin/bash
# usage: tools/coverage.sh [ID...]     (default: all 17, quick tier)
# Line coverage of /repo/etherparse (non-test code) reached by the quick tier of the checks.
# Builds an instrumented harness under /tmp/epcov (nightly, -C instrument-coverage), runs each check with
# its own scratch root there and prints the llvm-cov per-file table plus the total.  Informational
# only - no registered command depends on it.  Remove /tmp/epcov afterwards (it does so on success
# unless KEEP=1).
set -u
ROOT="$(cd "$(dirname "${BASH_SOURCE[0]}")/.." && pwd)"
C=/tmp/epcov
IDS="${*:-C01 C02 C03 C04 C05 C06 C07 C08 C09 C10 C11 C12 C13 C14 C15 C16 C17}"
B="$(rustc +nightly --print sysroot)/lib/rustlib/x86_64-unknown-linux-gnu/bin"
rm -rf $C/prof; mkdir -p $C/prof $C/root
rsync -a --delete "$ROOT/regress" $C/root/; cp "$ROOT/known_findings.json" $C/root/
(cd "$ROOT/harness" && CARGO_NET_OFFLINE=true RUSTFLAGS="-C instrument-coverage" cargo +nightly build --quiet --profile checked --target-dir $C/target) || { echo "coverage build failed"; exit 2; }
for id in $IDS; do
  LLVM_PROFILE_FILE="$C/prof/$id-%p-%8m.profraw" EPVERIF_ROOT=$C/root EPVERIF_BIN_CHECKED=$C/target/checked/epverif EPVERIF_BIN_RELEASE=$C/target/checked/epverif \
    EPVERIF_CASES=${COV_CASES:-60000} $C/target/checked/epverif run $id quick 2>&1 | grep -E "^C[0-9]+ quick|VIOLATION" | cut -c1-120
done
$B/llvm-profdata merge -sparse $C/prof/*.profraw -o $C/all.profdata
$B/llvm-cov report $C/target/checked/epverif -instr-profile=$C/all.profdata --ignore-filename-regex='(registry|rustc|rustup|harness)' > $C/report.txt 2>/dev/null
awk 'NR>2 {print $1, $8, $9, $10}' $C/report.txt | sed 's#^.*/etherparse/src/##' > "$ROOT/tools/coverage_quick.txt"
tail -1 "$ROOT/tools/coverage_quick.txt"
[ "${KEEP:-0}" = "1" ] || rm -rf $C
