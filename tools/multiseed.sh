#!/bin/bash
# usage: tools/multiseed.sh <tier> <seed>...   every check with each seed, from fresh processes, against the
# built harness; own scratch root (evidence/replays are not written into /verif). One line per run;
# anything but rc=0 is printed with its VIOLATION/INCONCLUSIVE lines.
TIER=$1; shift
ROOT="$(cd "$(dirname "$0")/.." && pwd)"; S=/tmp/epms; mkdir -p $S/root
rsync -a --delete "$ROOT/regress" $S/root/; cp "$ROOT/known_findings.json" $S/root/
(cd $ROOT/harness && CARGO_NET_OFFLINE=true cargo build --quiet --offline --profile checked && cargo build --quiet --offline --profile release) || exit 2
for seed in "$@"; do for id in C01 C02 C03 C04 C05 C06 C07 C08 C09 C10 C11 C12 C13 C14 C15 C16 C17; do
  out=$(VERIF_SEED=$seed EPVERIF_ROOT=$S/root EPVERIF_BIN_CHECKED=$ROOT/harness/target/checked/epverif EPVERIF_BIN_RELEASE=$ROOT/harness/target/release/epverif $ROOT/harness/target/checked/epverif run $id $TIER 2>&1); rc=$?
  echo "seed=$seed $id rc=$rc $(echo "$out" | grep -E "^C[0-9]+ (quick|thorough)" | cut -c1-120)"
  [ $rc -eq 0 ] || echo "$out" | grep -E "^VIOLATION|^INCONCLUSIVE|signature:|detail:" | head -6 | cut -c1-400
done; done
