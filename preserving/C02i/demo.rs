//! Demo for seed C02i.
//!
//! A fixed size TCP option (MSS, window scale, timestamp) can have TWO faults
//! at the same time: its length field carries a value that is illegal for the
//! option kind AND the options area ends before the option is complete.
//!
//! Unchanged code: the truncation is reported (`UnexpectedEndOfSlice`).
//! Changed code:   the bad length field is reported (`UnexpectedSize`), which
//!                 is the order of checks the iterator already uses for the
//!                 selective acknowledgement option.
//!
//! Both answers are true statements about the input. In both cases the
//! iterator yields exactly one error value, collapses to an empty rest and
//! terminates - which is all property C02 asks for.

use etherparse::*;

/// Drives the iterator to the end & checks the "total decoder" promises
/// (returns normally, makes progress, not more items than bytes), then
/// returns the first item.
fn first_item_of(options: &[u8]) -> Option<Result<TcpOptionElement, TcpOptionReadError>> {
    let mut it = TcpOptionsIterator::from_slice(options);
    let first = it.next();

    // after an error the iterator is done
    assert_eq!(0, it.rest().len());
    assert_eq!(None, it.next());

    // never more items than bytes & Debug rendering terminates
    assert!(TcpOptionsIterator::from_slice(options).count() <= options.len());
    let _ = format!("{:?}", TcpOptionsIterator::from_slice(options));

    first
}

#[test]
fn bad_length_field_is_reported_before_truncation() {
    use tcp_option::*;
    use TcpOptionReadError::*;

    // maximum segment size: length field 3 (must be 4) & only 3 bytes present
    assert_eq!(
        Some(Err(UnexpectedSize {
            option_id: KIND_MAXIMUM_SEGMENT_SIZE,
            size: 3
        })),
        first_item_of(&[KIND_MAXIMUM_SEGMENT_SIZE, 3, 0])
    );

    // window scale: length field 7 (must be 3) & only 2 bytes present
    assert_eq!(
        Some(Err(UnexpectedSize {
            option_id: KIND_WINDOW_SCALE,
            size: 7
        })),
        first_item_of(&[KIND_WINDOW_SCALE, 7])
    );

    // timestamp: length field 4 (must be 10) & only 4 bytes present
    assert_eq!(
        Some(Err(UnexpectedSize {
            option_id: KIND_TIMESTAMP,
            size: 4
        })),
        first_item_of(&[KIND_TIMESTAMP, 4, 0, 0])
    );
}

#[test]
fn also_visible_through_a_decoded_tcp_header() {
    use tcp_option::*;
    use TcpOptionReadError::*;

    // 20 bytes tcp header + 4 bytes options: [NOOP, MSS, 3, 0]
    // (data offset 6 => 24 bytes header)
    let mut bytes = [0u8; 24];
    bytes[12] = 6 << 4;
    bytes[20..].copy_from_slice(&[KIND_NOOP, KIND_MAXIMUM_SEGMENT_SIZE, 3, 0]);

    let (header, rest) = TcpHeader::from_slice(&bytes).unwrap();
    assert!(rest.is_empty());

    let mut it = header.options_iterator();
    assert_eq!(Some(Ok(TcpOptionElement::Noop)), it.next());
    assert_eq!(
        Some(Err(UnexpectedSize {
            option_id: KIND_MAXIMUM_SEGMENT_SIZE,
            size: 3
        })),
        it.next()
    );
    assert_eq!(None, it.next());

    // inputs with a single fault are reported as before:

    // only truncated (length field is fine)
    assert_eq!(
        Some(Err(UnexpectedEndOfSlice {
            option_id: KIND_MAXIMUM_SEGMENT_SIZE,
            expected_len: 4,
            actual_len: 3
        })),
        first_item_of(&[KIND_MAXIMUM_SEGMENT_SIZE, 4, 0])
    );
    // only the option id is left
    assert_eq!(
        Some(Err(UnexpectedEndOfSlice {
            option_id: KIND_TIMESTAMP,
            expected_len: 10,
            actual_len: 1
        })),
        first_item_of(&[KIND_TIMESTAMP])
    );
    // only a bad length field (enough bytes present)
    assert_eq!(
        Some(Err(UnexpectedSize {
            option_id: KIND_WINDOW_SCALE,
            size: 2
        })),
        first_item_of(&[KIND_WINDOW_SCALE, 2, 0, 0])
    );
}
