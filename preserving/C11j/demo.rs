//! Demo for seed C11j: `IpFragRange::merge` decides "touching or overlapping"
//! with two instead of four comparisons ("the start of one range lies within
//! the other one").
//!
//! For every well formed range pair (`start <= end`, the only kind
//! `IpDefragBuf` ever creates: `end = start + payload.len()`) the answer is
//! identical to the previous implementation. It only differs for ranges that
//! are ill-formed (`start > end`, i.e. a section with a "negative length"),
//! which can only be produced by a user constructing an `IpFragRange` by hand.
use etherparse::defrag::*;
use etherparse::*;

fn r(start: u16, end: u16) -> IpFragRange {
    IpFragRange { start, end }
}

/// Independent statement of "touching or overlapping" for well formed ranges.
fn touch_or_overlap(a: IpFragRange, b: IpFragRange) -> bool {
    core::cmp::max(a.start, b.start) <= core::cmp::min(a.end, b.end)
}

/// Holds with AND without the change: on well formed ranges (including the
/// empty ones) nothing changed. Exhaustive over a small domain.
fn merge_unchanged_for_well_formed_ranges() {
    for s1 in 0..20u16 {
        for e1 in s1..20 {
            for s2 in 0..20u16 {
                for e2 in s2..20 {
                    let (a, b) = (r(s1, e1), r(s2, e2));
                    let expected = if touch_or_overlap(a, b) {
                        Some(r(s1.min(s2), e1.max(e2)))
                    } else {
                        None
                    };
                    assert_eq!(a.merge(b), expected, "{a:?} {b:?}");
                    assert_eq!(b.merge(a), expected, "{a:?} {b:?}");
                }
            }
        }
    }
}

/// Holds with AND without the change: a reassembly that needs every kind of
/// merge (touching on the left, on the right, bridging two sections,
/// duplicates) still completes exactly on the last missing fragment.
fn reassembly_unchanged() {
    let payload: Vec<u8> = (0..44u8).collect();
    let mut buf = IpDefragBuf::new(IpNumber::UDP, Vec::new(), Vec::new());
    // (start, end) in bytes, arrival order chosen to exercise the merges
    let order = [(32usize, 44usize), (0, 8), (16, 24), (16, 24), (24, 32), (0, 8), (8, 16)];
    for (i, (s, e)) in order.iter().enumerate() {
        buf.add(
            IpFragOffset::try_new((*s / 8) as u16).unwrap(),
            *e != payload.len(),
            &payload[*s..*e],
        )
        .unwrap();
        assert_eq!(buf.is_complete(), i == order.len() - 1);
    }
    assert_eq!(buf.take_bufs().0, payload);
}

/// FAILS without the change, PASSES with it: a hand made ill-formed range
/// (start 5 > end 3) is no longer "connected" to the range 0..4 via its end.
#[test]
fn merge_differs_only_for_ill_formed_range() {
    // what the property talks about is untouched (true before and after)
    merge_unchanged_for_well_formed_ranges();
    reassembly_unchanged();

    let ill_formed = r(5, 3);
    let other = r(0, 4);
    // unchanged code: Some(IpFragRange { start: 0, end: 4 }) (in both directions)
    assert_eq!(ill_formed.merge(other), None);
    assert_eq!(other.merge(ill_formed), None);
}
