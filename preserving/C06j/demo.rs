//! Demo for seed C06j.
//!
//! `Ipv6RawExtHeader::read` / `Ipv6RawExtHeader::read_limited` used to fetch
//! the header in the chunks "2 bytes (next header + hdr ext len), then the
//! rest". With the change they fetch the 8 byte minimum of a raw extension
//! header in one go and then the (hdr ext len * 8) bytes that remain.
//!
//! The decoded headers & the number of consumed bytes are unchanged. What
//! changes is the `required_len` that is named in the length error when the
//! IPv6 `payload_length` (enforced via `LimitedReader`) cuts off a raw
//! extension header, and the sizes of the reads issued to the `io::Read`.
//!
//! All tests PASS with the change and FAIL without it.

use etherparse::err::{Layer, LenError};
use etherparse::io::LimitedReader;
use etherparse::*;
use std::io::{Cursor, Read};

/// IPv6 header (next header = hop by hop) with the given payload length
/// followed by a hop by hop header with the given "hdr ext len".
fn ipv6_with_hop_by_hop(payload_length: u16, hdr_ext_len: u8) -> Vec<u8> {
    let header = Ipv6Header {
        traffic_class: 0,
        flow_label: Ipv6FlowLabel::ZERO,
        payload_length,
        next_header: ip_number::IPV6_HOP_BY_HOP,
        hop_limit: 4,
        source: [1; 16],
        destination: [2; 16],
    };
    let mut bytes = Vec::new();
    bytes.extend_from_slice(&header.to_bytes());
    // hop by hop header (next header = UDP)
    bytes.push(ip_number::UDP.0);
    bytes.push(hdr_ext_len);
    bytes.extend(core::iter::repeat(0).take(6 + usize::from(hdr_ext_len) * 8));
    bytes
}

/// `payload_length` is 1: not even the two leading bytes of the hop by hop
/// header are covered.
///
/// old: required_len = 2 (size of the first chunk the reader asked for)
/// new: required_len = 8 (minimum length of a raw extension header; this is
///      also what `IpHeaders::from_slice` reports for the same packet)
#[test]
fn ip_headers_read_payload_length_1() {
    let bytes = ipv6_with_hop_by_hop(1, 0);

    let read_err = IpHeaders::read(&mut Cursor::new(&bytes[..]))
        .unwrap_err()
        .len()
        .unwrap();
    assert_eq!(
        read_err,
        LenError {
            required_len: 8, // was 2 before the change
            len: 1,
            len_source: LenSource::Ipv6HeaderPayloadLen,
            layer: Layer::Ipv6ExtHeader,
            layer_start_offset: 40,
        }
    );

    // decoding the announced packet (40 + 1 bytes) from a slice is rejected
    // for the same reason (and now even with identical numbers)
    let slice_err = match IpHeaders::from_slice(&bytes[..41]).unwrap_err() {
        err::ip::HeadersSliceError::Len(l) => l,
        other => panic!("unexpected error {other:?}"),
    };
    assert_eq!(read_err, slice_err);
}

/// `payload_length` is 5 and the hop by hop header announces 16 bytes.
///
/// old: required_len = 16 (2 bytes were read, then 14 more were requested)
/// new: required_len = 8  (the 8 byte minimum does not fit into 5 bytes)
#[test]
fn ip_headers_read_payload_length_5() {
    let bytes = ipv6_with_hop_by_hop(5, 1);

    let read_err = IpHeaders::read(&mut Cursor::new(&bytes[..]))
        .unwrap_err()
        .len()
        .unwrap();
    assert_eq!(
        read_err,
        LenError {
            required_len: 8, // was 16 before the change
            len: 5,
            len_source: LenSource::Ipv6HeaderPayloadLen,
            layer: Layer::Ipv6ExtHeader,
            layer_start_offset: 40,
        }
    );

    let slice_err = match IpHeaders::from_slice(&bytes[..45]).unwrap_err() {
        err::ip::HeadersSliceError::Len(l) => l,
        other => panic!("unexpected error {other:?}"),
    };
    assert_eq!(read_err, slice_err);
}

/// Same thing directly on the header type via a `LimitedReader`.
#[test]
fn raw_ext_read_limited() {
    let bytes = [ip_number::UDP.0, 0, 1, 2, 3, 4, 5, 6];
    let mut reader = LimitedReader::new(
        Cursor::new(&bytes[..]),
        1,
        LenSource::Ipv6HeaderPayloadLen,
        40,
        Layer::Ipv6Header,
    );
    let err = Ipv6RawExtHeader::read_limited(&mut reader)
        .unwrap_err()
        .len()
        .unwrap();
    assert_eq!(
        (err.required_len, err.len, err.layer, err.layer_start_offset),
        (8, 1, Layer::Ipv6ExtHeader, 40) // was (2, 1, Ipv6ExtHeader, 40)
    );
    // nothing was taken from the underlying reader (unchanged)
    assert_eq!(reader.take_reader().position(), 0);
}

/// Reader that records the sizes of the `read` calls it receives.
struct Recording<'a> {
    inner: Cursor<&'a [u8]>,
    sizes: Vec<usize>,
}

impl Read for Recording<'_> {
    fn read(&mut self, buf: &mut [u8]) -> std::io::Result<usize> {
        self.sizes.push(buf.len());
        self.inner.read(buf)
    }
}

impl std::io::Seek for Recording<'_> {
    fn seek(&mut self, pos: std::io::SeekFrom) -> std::io::Result<u64> {
        self.inner.seek(pos)
    }
}

/// The same header is decoded & the same number of bytes is consumed, but
/// the bytes are requested in different chunks.
#[test]
fn raw_ext_read_call_pattern() {
    // header with hdr ext len 1 (16 bytes) followed by 3 unrelated bytes
    let mut bytes = vec![ip_number::UDP.0, 1];
    bytes.extend(2..16u8);
    bytes.extend([0xaa, 0xbb, 0xcc]);

    let mut reader = Recording {
        inner: Cursor::new(&bytes[..]),
        sizes: Vec::new(),
    };
    let header = Ipv6RawExtHeader::read(&mut reader).unwrap();

    // same header as the slice decoder & exactly the header consumed
    let (expected, rest) = Ipv6RawExtHeader::from_slice(&bytes).unwrap();
    assert_eq!(header, expected);
    assert_eq!(rest, &[0xaa, 0xbb, 0xcc]);
    assert_eq!(reader.inner.position(), 16);

    // old: [2, 14], new: [8, 8]
    assert_eq!(reader.sizes, [8, 8]);
}
