//! Demo for the C07 seed "lax transport stop errors inherit the MACsec short
//! length as length source when the IP layer fell back to the slice length".
//!
//! Packet layout used by both tests (all offsets from the start of the buffer
//! handed to `LaxSlicedPacket::from_ethernet`):
//!
//! ```text
//!  0..14  Ethernet II (ether type MACsec)
//! 14..22  MACsec SecTag (no SCI, unmodified payload) + ether type of the payload,
//!         "short length" = 2 + <ip header len> + 4
//! 22..    IP header whose own length field can NOT be used by the lax parser
//!         (IPv4 total_len bigger than the data / IPv6 payload_length 0), so the
//!         lax IP slice reports `LenSource::Slice` for its payload
//!  ..+4   only 4 bytes of an UDP header (8 would be needed)
//!  ..+16  16 bytes of ICV/padding that are cut away by the MACsec short length
//! ```
//!
//! The UDP header is therefore limited to 4 bytes by the MACsec "short length"
//! field (the buffer itself continues for another 16 bytes).
//!
//! * unchanged code: the stop error names `LenSource::Slice`
//! * changed code: the stop error names `LenSource::MacsecShortLength`
//!
//! Layer, offset, len & required_len are identical in both versions.

use etherparse::{err::packet::SliceError, err::Layer, err::LenError, *};

fn build(ip_ether_type: EtherType, ip_header: &[u8]) -> Vec<u8> {
    let mut macsec = MacsecHeader {
        ptype: MacsecPType::Unmodified(ip_ether_type),
        endstation_id: false,
        scb: false,
        an: MacsecAn::ZERO,
        short_len: MacsecShortLen::ZERO,
        packet_nr: 1,
        sci: None,
    };
    // ip header + 4 bytes of an udp header are covered by the short length
    macsec.set_payload_len(ip_header.len() + 4);
    assert_ne!(macsec.short_len, MacsecShortLen::ZERO);

    let mut data = Vec::new();
    data.extend_from_slice(
        &Ethernet2Header {
            source: [1, 2, 3, 4, 5, 6],
            destination: [7, 8, 9, 10, 11, 12],
            ether_type: EtherType::MACSEC,
        }
        .to_bytes(),
    );
    data.extend_from_slice(&macsec.to_bytes());
    data.extend_from_slice(ip_header);
    // first half of an udp header (source & destination port)
    data.extend_from_slice(&[0, 1, 0, 2]);
    // ICV behind the MACsec payload (not part of the payload)
    data.extend_from_slice(&[0xcc; 16]);
    data
}

fn check(data: &[u8], ip_header_len: usize) {
    let r = LaxSlicedPacket::from_ethernet(data).unwrap();

    // sanity checks: macsec did limit the payload & the ip layer fell back
    // to the length of the slice it was given
    assert_eq!(1, r.link_exts.len());
    match &r.link_exts[0] {
        LaxLinkExtSlice::Macsec(m) => {
            let p = m.ether_payload().unwrap();
            assert_eq!(LenSource::MacsecShortLength, p.len_source);
            assert_eq!(ip_header_len + 4, p.payload.len());
            assert!(!p.incomplete);
        }
        _ => panic!("macsec expected"),
    }
    let ip_payload = match r.net.as_ref().unwrap() {
        LaxNetSlice::Ipv4(s) => s.payload().clone(),
        LaxNetSlice::Ipv6(s) => s.payload().clone(),
        _ => panic!("ip expected"),
    };
    assert_eq!(LenSource::Slice, ip_payload.len_source);
    assert_eq!(&[0, 1, 0, 2], ip_payload.payload);
    assert!(r.transport.is_none());

    // the stop error
    assert_eq!(
        r.stop_err,
        Some((
            SliceError::Len(LenError {
                required_len: UdpHeader::LEN,
                len: 4,
                // unchanged code: LenSource::Slice
                len_source: LenSource::MacsecShortLength,
                layer: Layer::UdpHeader,
                layer_start_offset: 14 + 8 + ip_header_len,
            }),
            Layer::UdpHeader
        ))
    );
}

#[test]
fn macsec_short_len_ipv4_total_len_too_big_udp_cut_off() {
    // total_len = 20 + 100 (much more than present -> lax fallback to slice len)
    let ip = Ipv4Header::new(100, 20, IpNumber::UDP, [1, 1, 1, 1], [2, 2, 2, 2]).unwrap();
    let data = build(EtherType::IPV4, &ip.to_bytes());
    check(&data, Ipv4Header::MIN_LEN);
}

#[test]
fn macsec_short_len_ipv6_payload_length_zero_udp_cut_off() {
    // payload_length 0 -> (lax) fallback to slice len
    let ip = Ipv6Header {
        traffic_class: 0,
        flow_label: Ipv6FlowLabel::ZERO,
        payload_length: 0,
        next_header: IpNumber::UDP,
        hop_limit: 4,
        source: [1; 16],
        destination: [2; 16],
    };
    let data = build(EtherType::IPV6, &ip.to_bytes());
    check(&data, Ipv6Header::LEN);
}
