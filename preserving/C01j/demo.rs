//! Demo for seed C01j: `ArpPacket::read` now fetches the four ARP addresses
//! with ONE `read_exact` call (into an initialized stack buffer) instead of
//! four separate calls that wrote directly into the `MaybeUninit` buffers of
//! the packet.
//!
//! The decoded value is identical (same bytes -> same `ArpPacket`, same
//! number of bytes consumed), only the call pattern seen by the user supplied
//! `std::io::Read` implementation differs:
//!
//! * unchanged code: requests of 8, 6, 4, 6, 4 bytes
//! * changed code:   requests of 8, 20 bytes

use etherparse::*;
use std::io::{Cursor, Read, Seek, SeekFrom};

/// Reader that forwards everything to a cursor over the packet bytes and
/// records the size of the buffer of every `read` call it receives.
struct RecordingReader<'a> {
    inner: Cursor<&'a [u8]>,
    requested: Vec<usize>,
}

impl Read for RecordingReader<'_> {
    fn read(&mut self, buf: &mut [u8]) -> std::io::Result<usize> {
        self.requested.push(buf.len());
        self.inner.read(buf)
    }
}

impl Seek for RecordingReader<'_> {
    fn seek(&mut self, pos: SeekFrom) -> std::io::Result<u64> {
        self.inner.seek(pos)
    }
}

/// Ethernet/IPv4 ARP request followed by 4 bytes that are not part of the packet.
const BYTES: [u8; 32] = [
    0, 1, // hardware type (ethernet)
    8, 0, // protocol type (IPv4)
    6, 4, // hardware address size, protocol address size
    0, 1, // operation (request)
    0x00, 0x1b, 0x21, 0x0f, 0x91, 0x9b, // sender mac
    10, 10, 1, 135, // sender ip
    0xde, 0xad, 0xc0, 0x00, 0xff, 0xee, // target mac
    192, 168, 1, 253, // target ip
    0xaa, 0xbb, 0xcc, 0xdd, // trailing bytes (not part of the ARP packet)
];

#[test]
fn arp_read_fetches_all_addresses_with_one_read() {
    let mut reader = RecordingReader {
        inner: Cursor::new(&BYTES[..]),
        requested: Vec::new(),
    };
    let actual = ArpPacket::read(&mut reader).unwrap();

    // the decoded value is the same as the one of the slice based decoder
    // and exactly the bytes of the packet have been consumed (true with &
    // without the change)
    assert_eq!(actual, ArpPacket::from_slice(&BYTES).unwrap());
    assert_eq!(&[0x00, 0x1b, 0x21, 0x0f, 0x91, 0x9b], actual.sender_hw_addr());
    assert_eq!(&[10, 10, 1, 135], actual.sender_protocol_addr());
    assert_eq!(&[0xde, 0xad, 0xc0, 0x00, 0xff, 0xee], actual.target_hw_addr());
    assert_eq!(&[192, 168, 1, 253], actual.target_protocol_addr());
    assert_eq!(28, reader.inner.position());

    // the call pattern differs: the unchanged code asks for [8, 6, 4, 6, 4]
    assert_eq!(vec![8, 20], reader.requested);
}
