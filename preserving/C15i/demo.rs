//! Demo for seed C15i.
//!
//! A MACsec SecTag whose first two octets carry TWO independent faults at
//! the same time:
//!
//!  * the version bit (bit 8 of the TCI/AN octet) is set, and
//!  * the short length (6 bit `MacsecShortLen`) is `1` while neither the
//!    "encrypted" nor the "changed text" flag is set (an unmodified payload
//!    starts with a 2 byte ether type, so SL must be 0 or >= 2).
//!
//! Both `UnexpectedVersion` and `InvalidUnmodifiedShortLen` are true
//! descriptions of such a header. The unchanged code reports the version
//! fault, the changed code reports the short length fault. In both versions
//! the header is rejected (no value is decoded at all) and headers with only
//! one of the two faults are reported exactly as before.

use etherparse::err::macsec::{HeaderError, HeaderSliceError};
use etherparse::*;

/// SecTag (+ ether type) with version bit set & short len 1 & unmodified ptype.
const BOTH_FAULTS: [u8; 8] = [
    0b1000_0000, // TCI/AN: version = 1, no flags set (unmodified), AN = 0
    0b0000_0001, // SL: short length = 1
    0, 0, 0, 1, // packet number
    0x08, 0x00, // ether type of the payload (IPv4)
];

#[test]
fn slice_decoding_reports_the_short_len_fault_when_both_faults_are_present() {
    assert_eq!(
        MacsecHeaderSlice::from_slice(&BOTH_FAULTS),
        Err(HeaderSliceError::Content(
            HeaderError::InvalidUnmodifiedShortLen
        ))
    );
    assert_eq!(
        MacsecHeader::from_slice(&BOTH_FAULTS),
        Err(HeaderSliceError::Content(
            HeaderError::InvalidUnmodifiedShortLen
        ))
    );
}

#[test]
fn read_reports_the_short_len_fault_when_both_faults_are_present() {
    let mut cursor = std::io::Cursor::new(&BOTH_FAULTS[..]);
    assert_eq!(
        MacsecHeader::read(&mut cursor).unwrap_err().content_error(),
        Some(HeaderError::InvalidUnmodifiedShortLen)
    );
}

/// Sanity (identical with & without the change): a single fault is reported
/// as what it is & a fault free header decodes to in-range values made of
/// exactly the bits of each field.
#[test]
fn single_faults_and_ok_case_unchanged() {
    // only the version bit
    let mut only_version = BOTH_FAULTS;
    only_version[1] = 0b1100_0010; // SL = 2 (reserved bits set)
    assert_eq!(
        MacsecHeaderSlice::from_slice(&only_version),
        Err(HeaderSliceError::Content(HeaderError::UnexpectedVersion))
    );

    // only the short length
    let mut only_sl = BOTH_FAULTS;
    only_sl[0] = 0b0000_0011; // version 0, AN = 3
    assert_eq!(
        MacsecHeaderSlice::from_slice(&only_sl),
        Err(HeaderSliceError::Content(
            HeaderError::InvalidUnmodifiedShortLen
        ))
    );

    // version bit set & short length 1, but payload flagged as modified:
    // short length 1 is legal here, so only the version is at fault
    let mut modified = BOTH_FAULTS;
    modified[0] = 0b1000_0100;
    assert_eq!(
        MacsecHeaderSlice::from_slice(&modified),
        Err(HeaderSliceError::Content(HeaderError::UnexpectedVersion))
    );

    // no fault
    let mut ok = BOTH_FAULTS;
    ok[0] = 0b0000_0011; // AN = 3
    ok[1] = 0b1111_1111; // SL = 63, reserved bits set
    let header = MacsecHeader::from_slice(&ok).unwrap();
    assert_eq!(header.an.value(), 3);
    assert_eq!(header.short_len.value(), 63);
    assert_eq!(header.ptype, MacsecPType::Unmodified(EtherType(0x0800)));
}
