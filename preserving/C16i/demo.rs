//! Seed C16i: on a too short output slice the `write_to_slice` functions
//! (PacketBuilder, Ethernet2Header, LinuxSllHeader) still return exactly the
//! same space error as before (same required length, same `len`, same layer),
//! but - like `std::io::Write::write_all` for `&mut [u8]`, i.e. like
//! `builder.write(&mut &mut buf[..], ..)` - they now FILL the available slice
//! with the START of the complete encoding instead of leaving it untouched.
//!
//! Property C16 only demands that "whatever was written before the fault is a
//! prefix of the complete encoding" and that nothing outside the given slice
//! is written - both are asserted below for every slice length.
//!
//! With the unchanged code the slice is left untouched on an error, so the
//! `assert_eq!(&buf[..len], &complete[..len])` checks fail there.

use etherparse::err::packet::BuildSliceWriteError;
use etherparse::err::{Layer, SliceWriteSpaceError};
use etherparse::*;

/// Sentinel that does not occur at the compared positions by accident:
/// every check below is done with two different sentinels.
const SENTINELS: [u8; 2] = [0xA5, 0x5A];

#[test]
fn packet_builder_write_to_slice_fills_prefix_on_space_error() {
    let payload = [1u8, 2, 3, 4, 5, 6, 7, 8];
    let builder = || {
        PacketBuilder::ethernet2([1, 2, 3, 4, 5, 6], [7, 8, 9, 10, 11, 12])
            .single_vlan(0x123.try_into().unwrap())
            .ipv4([192, 168, 1, 1], [192, 168, 1, 2], 20)
            .udp(21, 1234)
    };

    // complete encoding
    let mut complete = Vec::new();
    builder().write(&mut complete, &payload).unwrap();
    let required = builder().size(payload.len());
    assert_eq!(required, complete.len());

    for sentinel in SENTINELS {
        for len in 0..required {
            // the slice handed to the builder is the middle part of a bigger
            // area so that writes outside of the slice would be detected
            let mut area = vec![sentinel; required + 16];
            let result = builder().write_to_slice(&mut area[8..8 + len], &payload);

            // still the very same error naming the really required length
            assert_eq!(result, Err(BuildSliceWriteError::Space(required)));

            // nothing outside of the given slice was touched
            assert!(area[..8].iter().all(|b| *b == sentinel));
            assert!(area[8 + len..].iter().all(|b| *b == sentinel));

            // NEW: what was written is the start of the complete encoding
            // (OLD: the slice is left untouched -> this fails for len > 0)
            assert_eq!(&area[8..8 + len], &complete[..len], "len={len}");

            // reference (same with & without the change): this is what
            // `write` has always left behind in a too short `&mut [u8]`
            // used as `std::io::Write`
            let mut io_buf = vec![sentinel; len];
            let mut io_target: &mut [u8] = &mut io_buf[..];
            assert!(builder().write(&mut io_target, &payload).is_err());
            assert_eq!(&io_buf[..], &area[8..8 + len]);
        }

        // enough space (exact & one byte more): unchanged behaviour
        for len in [required, required + 1] {
            let mut area = vec![sentinel; len];
            assert_eq!(builder().write_to_slice(&mut area, &payload), Ok(required));
            assert_eq!(&area[..required], &complete[..]);
            assert!(area[required..].iter().all(|b| *b == sentinel));
        }
    }
}

#[test]
fn link_header_write_to_slice_fills_prefix_on_space_error() {
    let eth = Ethernet2Header {
        source: [1, 2, 3, 4, 5, 6],
        destination: [7, 8, 9, 10, 11, 12],
        ether_type: EtherType::IPV4,
    };
    let sll = LinuxSllHeader {
        packet_type: LinuxSllPacketType::OUTGOING,
        arp_hrd_type: ArpHardwareId::ETHERNET,
        sender_address_valid_length: 6,
        sender_address: [1, 2, 3, 4, 5, 6, 0, 0],
        protocol_type: LinuxSllProtocolType::EtherType(EtherType::IPV4),
    };

    for sentinel in SENTINELS {
        for len in 0..Ethernet2Header::LEN {
            let mut area = [sentinel; Ethernet2Header::LEN + 4];
            assert_eq!(
                eth.write_to_slice(&mut area[2..2 + len]).unwrap_err(),
                SliceWriteSpaceError {
                    required_len: Ethernet2Header::LEN,
                    len,
                    layer: Layer::Ethernet2Header,
                    layer_start_offset: 0,
                }
            );
            assert!(area[..2].iter().all(|b| *b == sentinel));
            assert!(area[2 + len..].iter().all(|b| *b == sentinel));
            // NEW: prefix of the encoding, OLD: untouched
            assert_eq!(&area[2..2 + len], &eth.to_bytes()[..len], "len={len}");
        }

        for len in 0..LinuxSllHeader::LEN {
            let mut area = [sentinel; LinuxSllHeader::LEN + 4];
            assert_eq!(
                sll.write_to_slice(&mut area[2..2 + len]).unwrap_err(),
                SliceWriteSpaceError {
                    required_len: LinuxSllHeader::LEN,
                    len,
                    layer: Layer::LinuxSllHeader,
                    layer_start_offset: 0,
                }
            );
            assert!(area[..2].iter().all(|b| *b == sentinel));
            assert!(area[2 + len..].iter().all(|b| *b == sentinel));
            // NEW: prefix of the encoding, OLD: untouched
            assert_eq!(&area[2..2 + len], &sll.to_bytes()[..len], "len={len}");
        }
    }
}
