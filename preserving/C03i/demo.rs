//! Demo for seed C03i.
//!
//! `Ipv4HeaderSlice::from_slice` & `Ipv6HeaderSlice::from_slice` (and with them
//! the strict whole-packet slicing started at an Ethernet II header, a Linux SLL
//! header or an ether type) now look at the first byte of the IP header (version
//! nibble & IHL) as soon as it is present, i.e. BEFORE checking that the slice
//! contains a complete header (the same order `IpSlice::from_slice` already uses).
//!
//! For inputs on which BOTH faults are present (header cut short AND wrong
//! version / too small IHL) slicing still fails (as before), but the content
//! error is reported instead of the length error.
use etherparse::{
    err::{self, packet::SliceError, Layer, LenError},
    *,
};

/// Ethernet II header announcing `ether_type` followed by `ip`.
fn eth(ether_type: EtherType, ip: &[u8]) -> Vec<u8> {
    let mut data = Vec::new();
    data.extend_from_slice(
        &Ethernet2Header {
            source: [1, 2, 3, 4, 5, 6],
            destination: [7, 8, 9, 10, 11, 12],
            ether_type,
        }
        .to_bytes(),
    );
    data.extend_from_slice(ip);
    data
}

/// The length error the unchanged code reports for these inputs.
fn old_len_err(required_len: usize, len: usize, layer: Layer, offset: usize) -> SliceError {
    SliceError::Len(LenError {
        required_len,
        len,
        len_source: LenSource::Slice,
        layer,
        layer_start_offset: offset,
    })
}

#[test]
fn ipv4_cut_short_and_wrong_version() {
    // ether type IPv4, but only 8 bytes of "IPv4 header" & a version nibble of 6
    let ip = [0x65, 0, 0, 28, 0, 0, 0, 0];
    let data = eth(EtherType::IPV4, &ip);
    let new = SliceError::Ipv4(err::ipv4::HeaderError::UnexpectedVersion { version_number: 6 });
    let old = old_len_err(20, 8, Layer::Ipv4Header, 14);

    let actual = SlicedPacket::from_ethernet(&data).unwrap_err();
    assert_ne!(actual, old);
    assert_eq!(actual, new);

    // same when started at the ether type & at the header slice itself
    assert_eq!(
        SlicedPacket::from_ether_type(EtherType::IPV4, &ip).unwrap_err(),
        new
    );
    assert_eq!(
        Ipv4HeaderSlice::from_slice(&ip).unwrap_err(),
        err::ipv4::HeaderSliceError::Content(err::ipv4::HeaderError::UnexpectedVersion {
            version_number: 6
        })
    );
}

#[test]
fn ipv4_cut_short_and_ihl_too_small() {
    // only 4 bytes present & an IHL of 4 (smaller than the IPv4 base header)
    let ip = [0x44, 0, 0, 20];
    let actual = SlicedPacket::from_ether_type(EtherType::IPV4, &ip).unwrap_err();
    assert_ne!(actual, old_len_err(20, 4, Layer::Ipv4Header, 0));
    assert_eq!(
        actual,
        SliceError::Ipv4(err::ipv4::HeaderError::HeaderLengthSmallerThanHeader { ihl: 4 })
    );
}

#[test]
fn ipv6_cut_short_and_wrong_version() {
    // ether type IPv6, but only 12 bytes present & a version nibble of 4
    let ip = [0x45, 0, 0, 0, 0, 0, 17, 64, 0, 0, 0, 0];
    let data = eth(EtherType::IPV6, &ip);
    let actual = SlicedPacket::from_ethernet(&data).unwrap_err();
    assert_ne!(actual, old_len_err(40, 12, Layer::Ipv6Header, 14));
    assert_eq!(
        actual,
        SliceError::Ipv6(err::ipv6::HeaderError::UnexpectedVersion { version_number: 4 })
    );
}
