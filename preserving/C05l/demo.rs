//! Demo for seed C05l.
//!
//! `LaxPacketHeaders` now also looks at the UDP length field when it fills the
//! `incomplete` flag of `LaxPayloadSlice::Udp` (before only the flag of the
//! enclosing IP payload was copied). The example in the documentation of
//! `LaxPacketHeaders` already describes the flag as "length in UDP or IP header
//! indicated more data should be present".
//!
//! Property C05 only prescribes the `incomplete` flag of link- and
//! network-layer payloads and demands that nothing is marked incomplete when
//! the strict parser accepts the input. Both still hold (second test).

use etherparse::*;

/// IPv4 + UDP packet in which everything is consistent except that the UDP
/// length field announces `udp_len_field` bytes while only 8 + 4 bytes of UDP
/// data are present (and the IPv4 total length matches the slice exactly).
fn ipv4_udp(udp_len_field: u16) -> Vec<u8> {
    let udp_payload = [1u8, 2, 3, 4];
    let mut ip = Ipv4Header::new(
        (UdpHeader::LEN + udp_payload.len()) as u16,
        20,
        ip_number::UDP,
        [192, 168, 1, 1],
        [192, 168, 1, 2],
    )
    .unwrap();
    ip.header_checksum = ip.calc_header_checksum();
    let udp = UdpHeader {
        source_port: 21,
        destination_port: 1234,
        length: udp_len_field,
        checksum: 0,
    };
    let mut data = Vec::new();
    data.extend_from_slice(&ip.to_bytes());
    data.extend_from_slice(&udp.to_bytes());
    data.extend_from_slice(&udp_payload);
    data
}

#[test]
fn udp_length_field_promising_more_marks_udp_payload_incomplete() {
    // UDP length field says 8 + 100 bytes, but only 8 + 4 are there.
    let data = ipv4_udp(108);

    // the strict parser rejects this input (at the UDP payload) ...
    assert!(PacketHeaders::from_ip_slice(&data).is_err());

    // ... the lax parser accepts it & falls back to the slice length
    let lax = LaxPacketHeaders::from_ip(&data).unwrap();
    assert_eq!(lax.stop_err, None);
    assert!(matches!(lax.transport, Some(TransportHeader::Udp(_))));

    // The IP layer is complete (total length == slice length). The lax ip
    // slicer confirms that the network-layer payload is NOT incomplete:
    let (ip, _) = LaxIpSlice::from_slice(&data).unwrap();
    assert!(!ip.payload().incomplete);
    assert_eq!(ip.payload().len_source, LenSource::Ipv4HeaderTotalLen);

    // unchanged code: Udp { payload: [1,2,3,4], incomplete: false }
    // changed code:   Udp { payload: [1,2,3,4], incomplete: true }
    assert_eq!(
        lax.payload,
        LaxPayloadSlice::Udp {
            payload: &[1, 2, 3, 4],
            incomplete: true,
        }
    );
}

#[test]
fn nothing_marked_incomplete_when_strict_parsing_succeeds() {
    // consistent length (8 + 4) & the "zero means use the rest" fallback are both
    // accepted by the strict parser -> the lax parser must not mark anything
    // incomplete and has to return the same payload (holds before & after).
    for udp_len_field in [12u16, 0] {
        let data = ipv4_udp(udp_len_field);
        let strict = PacketHeaders::from_ip_slice(&data).unwrap();
        let lax = LaxPacketHeaders::from_ip(&data).unwrap();
        assert_eq!(lax.stop_err, None);
        assert_eq!(strict.net, lax.net);
        assert_eq!(strict.transport, lax.transport);
        assert_eq!(strict.payload, PayloadSlice::Udp(&[1, 2, 3, 4]));
        assert_eq!(
            lax.payload,
            LaxPayloadSlice::Udp {
                payload: &[1, 2, 3, 4],
                incomplete: false,
            }
        );
    }
}
