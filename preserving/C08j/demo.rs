//! Demo for the property-preserving change C08j.
//!
//! The `write` methods of the four headers with a variable-length part
//! (`IpAuthHeader`, `Ipv6RawExtHeader`, `TcpHeader`, `Ipv4Header`) now hand
//! the serialized header over to the `std::io::Write` implementation with
//! ONE `write_all` call (the result of `to_bytes()`), instead of one call for
//! the static part followed by a second call for the variable part (ICV,
//! extension payload, TCP options, IPv4 options).
//!
//! The BYTES that end up in the writer are exactly the same as before (and
//! identical to `to_bytes()`), only the chunking of the calls on the writer
//! differs. This is visible to a writer that observes call boundaries (e.g.
//! an unbuffered or message oriented sink).
//!
//! With the change: every test passes (one chunk per header).
//! Without it: every test fails (two chunks: static part + variable part).

use etherparse::*;
use std::io::Write;

/// Writer that records the buffer of every `write` call separately.
#[derive(Default)]
struct ChunkRecorder {
    chunks: Vec<Vec<u8>>,
}

impl Write for ChunkRecorder {
    fn write(&mut self, buf: &[u8]) -> std::io::Result<usize> {
        // accept everything that is offered in one go
        self.chunks.push(buf.to_vec());
        Ok(buf.len())
    }
    fn flush(&mut self) -> std::io::Result<()> {
        Ok(())
    }
}

impl ChunkRecorder {
    fn all_bytes(&self) -> Vec<u8> {
        self.chunks.concat()
    }
}

#[test]
fn ip_auth_header_is_written_with_one_call() {
    let header = IpAuthHeader::new(IpNumber::UDP, 0x0102_0304, 0x0506_0708, &[0xAA; 8]).unwrap();
    let mut w = ChunkRecorder::default();
    header.write(&mut w).unwrap();

    // same bytes as always (what the property C08 is about)
    assert_eq!(w.all_bytes(), header.to_bytes().as_slice());
    assert_eq!(w.all_bytes().len(), header.header_len());

    // new: one chunk (old: [12 bytes static part][8 bytes icv])
    assert_eq!(w.chunks.len(), 1);
    assert_eq!(w.chunks[0], header.to_bytes().as_slice());
}

#[test]
fn ipv6_raw_ext_header_is_written_with_one_call() {
    let header = Ipv6RawExtHeader::new_raw(IpNumber::UDP, &[0xBB; 14]).unwrap();
    let mut w = ChunkRecorder::default();
    header.write(&mut w).unwrap();

    assert_eq!(w.all_bytes(), header.to_bytes().as_slice());
    assert_eq!(w.all_bytes().len(), header.header_len());

    // new: one chunk (old: [next_header, len][14 bytes payload])
    assert_eq!(w.chunks.len(), 1);
    assert_eq!(w.chunks[0], header.to_bytes().as_slice());
}

#[test]
fn tcp_header_is_written_with_one_call() {
    let mut header = TcpHeader::new(1234, 80, 0x1122_3344, 4000);
    header
        .set_options(&[
            TcpOptionElement::MaximumSegmentSize(1400),
            TcpOptionElement::WindowScale(7),
        ])
        .unwrap();
    assert_eq!(header.header_len(), 28);

    let mut w = ChunkRecorder::default();
    header.write(&mut w).unwrap();

    assert_eq!(w.all_bytes(), header.to_bytes().as_slice());
    assert_eq!(w.all_bytes().len(), header.header_len());

    // new: one chunk (old: [20 bytes static part][8 bytes options])
    assert_eq!(w.chunks.len(), 1);
    assert_eq!(w.chunks[0], header.to_bytes().as_slice());
}

#[test]
fn ipv4_header_is_written_with_one_call() {
    let mut header = Ipv4Header::new(100, 64, IpNumber::UDP, [10, 0, 0, 1], [10, 0, 0, 2]).unwrap();
    header.options = [1u8, 1, 1, 0].into(); // noop, noop, noop, end of options
    header.total_len = (header.header_len() + 100) as u16;
    // make the checksum field consistent so `write` (recalculates the
    // checksum) & `write_raw`/`to_bytes` (use the field) agree
    header.header_checksum = header.calc_header_checksum();
    assert_eq!(header.header_len(), 24);

    // write (with checksum calculation)
    {
        let mut w = ChunkRecorder::default();
        header.write(&mut w).unwrap();
        assert_eq!(w.all_bytes(), header.to_bytes().as_slice());
        // new: one chunk (old: [20 bytes static part][4 bytes options])
        assert_eq!(w.chunks.len(), 1);
        assert_eq!(w.chunks[0], header.to_bytes().as_slice());
    }
    // write_raw (checksum field as is)
    {
        let mut w = ChunkRecorder::default();
        header.write_raw(&mut w).unwrap();
        assert_eq!(w.all_bytes(), header.to_bytes().as_slice());
        assert_eq!(w.chunks.len(), 1);
        assert_eq!(w.chunks[0], header.to_bytes().as_slice());
    }
}
