//! Demo for seed C13i.
//!
//! A fixed size TCP option (maximum segment size, window scale, timestamp)
//! can be malformed in TWO ways at once: its length byte carries a value
//! that is not allowed for the kind AND the option area ends before the
//! option would be complete.
//!
//! * unchanged code: the truncation is reported
//!   (`UnexpectedEndOfSlice { option_id, expected_len, actual_len }`)
//! * changed code: the bad length byte is reported
//!   (`UnexpectedSize { option_id, size }`), which is the order in which the
//!   selective acknowledgement option has always been validated.
//!
//! Both errors are true statements about the bytes, the iterator stops at
//! the same option and stays exhausted in both versions.

use etherparse::{
    tcp_option::*, TcpOptionElement::*, TcpOptionReadError::*, TcpOptions, TcpOptionsIterator,
};

#[test]
fn truncated_option_with_bad_length_byte_reports_the_length_byte() {
    // (raw option area, kind, the (bad) length byte)
    let cases: [(&[u8], u8, u8); 5] = [
        // maximum segment size: len byte 7 (must be 4), only 3 bytes left
        (&[KIND_MAXIMUM_SEGMENT_SIZE, 7, 0], KIND_MAXIMUM_SEGMENT_SIZE, 7),
        // maximum segment size: len byte 0, only 2 bytes left
        (&[KIND_MAXIMUM_SEGMENT_SIZE, 0], KIND_MAXIMUM_SEGMENT_SIZE, 0),
        // window scale: len byte 9 (must be 3), only 2 bytes left
        (&[KIND_WINDOW_SCALE, 9], KIND_WINDOW_SCALE, 9),
        // timestamp: len byte 8 (must be 10), only 8 bytes left
        (&[KIND_TIMESTAMP, 8, 0, 0, 0, 0, 0, 0], KIND_TIMESTAMP, 8),
        // timestamp: len byte 12 (must be 10), only 9 bytes left
        (&[KIND_TIMESTAMP, 12, 0, 0, 0, 0, 0, 0, 0], KIND_TIMESTAMP, 12),
    ];
    for (area, kind, size) in cases {
        // with a well formed element in front, to show that the
        // iterator stops at the same place
        let mut with_prefix = [KIND_NOOP; 12];
        with_prefix[1..1 + area.len()].copy_from_slice(area);
        let with_prefix = &with_prefix[..1 + area.len()];

        for (bytes, prefix) in [(area, 0usize), (with_prefix, 1usize)] {
            let mut it = TcpOptionsIterator::from_slice(bytes);
            for _ in 0..prefix {
                assert_eq!(Some(Ok(Noop)), it.next());
            }
            // old: Some(Err(UnexpectedEndOfSlice{ option_id: kind, expected_len: <fixed size of kind>, actual_len: area.len() }))
            assert_eq!(
                Some(Err(UnexpectedSize {
                    option_id: kind,
                    size
                })),
                it.next()
            );
            // exhausted & stays exhausted (same as before)
            assert_eq!(0, it.rest().len());
            assert_eq!(None, it.next());
            assert_eq!(None, it.next());
        }
    }
}

#[test]
fn single_fault_cases_are_unchanged() {
    // only truncated (length byte is fine or not even present)
    assert_eq!(
        Some(Err(UnexpectedEndOfSlice {
            option_id: KIND_MAXIMUM_SEGMENT_SIZE,
            expected_len: 4,
            actual_len: 3
        })),
        TcpOptionsIterator::from_slice(&[KIND_MAXIMUM_SEGMENT_SIZE, 4, 0]).next()
    );
    assert_eq!(
        Some(Err(UnexpectedEndOfSlice {
            option_id: KIND_TIMESTAMP,
            expected_len: 10,
            actual_len: 1
        })),
        TcpOptionsIterator::from_slice(&[KIND_TIMESTAMP]).next()
    );
    // only a bad length byte
    assert_eq!(
        Some(Err(UnexpectedSize {
            option_id: KIND_MAXIMUM_SEGMENT_SIZE,
            size: 7
        })),
        TcpOptionsIterator::from_slice(&[KIND_MAXIMUM_SEGMENT_SIZE, 7, 0, 0]).next()
    );
    // round trip of well formed elements
    let elements = [MaximumSegmentSize(1400), WindowScale(7), Timestamp(1, 2)];
    let options = TcpOptions::try_from_elements(&elements).unwrap();
    assert_eq!(20, options.len());
    assert_eq!(
        options.elements_iter().collect::<Vec<_>>(),
        elements.iter().cloned().map(Ok).collect::<Vec<_>>()
    );
}
