//! Demo for seed C14i.
//!
//! `IpHeaders::set_payload_len(len)` adds the length of the extension headers
//! to `len` before storing it into the IPv4 "total length" / IPv6 "payload
//! length" field. When the result does not fit, the unchanged code names the
//! two lengths of the `ValueTooBigError` as (`len + exts_len`, field maximum),
//! the changed code names them as (`len`, field maximum `- exts_len`), i.e. in
//! terms of the value the caller actually passed in (the same convention the
//! unchanged code already uses if `len + exts_len` overflows `usize`).
//!
//! The set of accepted values, the encoded fields and the "header untouched
//! on error" behaviour are identical (also asserted below).

use etherparse::err::{ValueTooBigError, ValueType};
use etherparse::*;

#[test]
fn ipv4_with_auth_ext_error_is_relative_to_the_passed_len() {
    // 12 byte authentication header as IPv4 extension
    let auth = IpAuthHeader::new(ip_number::UDP, 1, 2, &[]).unwrap();
    let exts_len = auth.header_len();
    assert_eq!(12, exts_len);

    let ipv4 = Ipv4Header::new(0, 64, ip_number::AUTH, [1, 2, 3, 4], [5, 6, 7, 8]).unwrap();
    let mut headers = IpHeaders::Ipv4(ipv4, Ipv4Extensions { auth: Some(auth) });
    let before = headers.clone();

    // biggest value of `len` that can be set
    let true_max = usize::from(u16::MAX) - Ipv4Header::MIN_LEN - exts_len;

    // one above the limit: rejected (with & without the change)
    let err = headers.set_payload_len(true_max + 1).unwrap_err();
    // header untouched (with & without the change)
    assert_eq!(before, headers);

    // changed code:   actual = true_max + 1,            max_allowed = true_max
    // unchanged code: actual = true_max + 1 + exts_len, max_allowed = true_max + exts_len
    assert_eq!(
        err,
        ValueTooBigError {
            actual: true_max + 1,
            max_allowed: true_max,
            value_type: ValueType::Ipv4PayloadLength,
        }
    );

    // exactly the limit: accepted & encoded exactly (with & without the change)
    headers.set_payload_len(true_max).unwrap();
    match &headers {
        IpHeaders::Ipv4(h, _) => assert_eq!(u16::MAX, h.total_len),
        _ => unreachable!(),
    }
}

#[test]
fn ipv6_with_fragment_ext_error_is_relative_to_the_passed_len() {
    // 8 byte fragment header as IPv6 extension
    let exts = Ipv6Extensions {
        fragment: Some(Ipv6FragmentHeader::new(
            ip_number::UDP,
            IpFragOffset::ZERO,
            true,
            1234,
        )),
        ..Default::default()
    };
    let exts_len = exts.header_len();
    assert_eq!(8, exts_len);

    let ipv6 = Ipv6Header {
        next_header: ip_number::IPV6_FRAG,
        ..Default::default()
    };
    let mut headers = IpHeaders::Ipv6(ipv6, exts);
    let before = headers.clone();

    // biggest value of `len` that can be set
    let true_max = usize::from(u16::MAX) - exts_len;

    let err = headers.set_payload_len(true_max + 1).unwrap_err();
    assert_eq!(before, headers);

    // changed code:   actual = true_max + 1,            max_allowed = true_max
    // unchanged code: actual = true_max + 1 + exts_len, max_allowed = 0xffff
    assert_eq!(
        err,
        ValueTooBigError {
            actual: true_max + 1,
            max_allowed: true_max,
            value_type: ValueType::Ipv6PayloadLength,
        }
    );

    // exactly the limit: accepted & encoded exactly (with & without the change)
    headers.set_payload_len(true_max).unwrap();
    match &headers {
        IpHeaders::Ipv6(h, _) => assert_eq!(u16::MAX, h.payload_length),
        _ => unreachable!(),
    }
}
