//! Demo for the C08i seed: `Ipv6Extensions::write` validates the "next header"
//! chain BEFORE it writes anything.
//!
//! The values used here are NOT well-formed in the sense of property C08
//! ("fields mutually consistent"): an extension header is present in the
//! struct but is never referenced by the `next_header` chain, so the value
//! can not be serialised at all (`write` returns `Err` with and without the
//! change). Only the state of the writer after that error and the precedence
//! between the content error and a simultaneous I/O error differ.

use etherparse::err::ipv6_exts::ExtsWalkError;
use etherparse::*;

/// Fragment header (-> UDP) plus an authentication header that nothing
/// points to.
fn inconsistent_exts() -> Ipv6Extensions {
    Ipv6Extensions {
        hop_by_hop_options: None,
        destination_options: None,
        routing: None,
        fragment: Some(Ipv6FragmentHeader::new(
            IpNumber::UDP, // skips the auth header
            IpFragOffset::ZERO,
            false,
            0x1234_5678,
        )),
        auth: Some(IpAuthHeader::new(IpNumber::UDP, 1, 2, &[0xAA; 4]).unwrap()),
    }
}

/// The same headers, but with a consistent chain (frag -> auth -> UDP).
fn consistent_exts() -> Ipv6Extensions {
    let mut exts = inconsistent_exts();
    let first = exts.set_next_headers(IpNumber::UDP);
    assert_eq!(first, IpNumber::IPV6_FRAGMENTATION_HEADER);
    exts
}

#[test]
fn nothing_is_written_when_the_chain_is_inconsistent() {
    let exts = inconsistent_exts();
    let mut buf = Vec::new();
    let err = exts
        .write(&mut buf, IpNumber::IPV6_FRAGMENTATION_HEADER)
        .unwrap_err();

    // same error with and without the change
    assert_eq!(
        err.content(),
        Some(&ExtsWalkError::ExtNotReferenced {
            missing_ext: IpNumber::AUTHENTICATION_HEADER
        })
    );

    // unchanged code: the 8 bytes of the fragment header have already been
    //                 written when the missing reference is noticed
    // changed code:   the writer is untouched
    assert_eq!(buf.len(), 0, "partial output: {:?}", buf);
}

#[test]
fn content_error_wins_over_io_error() {
    // two faults at once: the chain is inconsistent AND the writer has no
    // space at all.
    let exts = inconsistent_exts();
    let mut no_space = [0u8; 0];
    let mut cursor = std::io::Cursor::new(&mut no_space[..]);
    let err = exts
        .write(&mut cursor, IpNumber::IPV6_FRAGMENTATION_HEADER)
        .unwrap_err();

    // unchanged code: Io(WriteZero) (fails while writing the fragment header)
    // changed code:   Content(ExtNotReferenced)
    assert!(err.io().is_none());
    assert_eq!(
        err.content(),
        Some(&ExtsWalkError::ExtNotReferenced {
            missing_ext: IpNumber::AUTHENTICATION_HEADER
        })
    );
}

/// Control (passes with and without the change): well-formed values are
/// serialised exactly as before & survive the round trip.
#[test]
fn well_formed_values_are_unaffected() {
    let exts = consistent_exts();
    let mut buf = Vec::new();
    exts.write(&mut buf, IpNumber::IPV6_FRAGMENTATION_HEADER)
        .unwrap();
    assert_eq!(buf.len(), exts.header_len());

    let mut expected = Vec::new();
    expected.extend_from_slice(&exts.fragment.as_ref().unwrap().to_bytes());
    expected.extend_from_slice(&exts.auth.as_ref().unwrap().to_bytes());
    assert_eq!(buf, expected);

    let (decoded, next, rest) =
        Ipv6Extensions::from_slice(IpNumber::IPV6_FRAGMENTATION_HEADER, &buf).unwrap();
    assert_eq!(decoded, exts);
    assert_eq!(next, IpNumber::UDP);
    assert!(rest.is_empty());

    // a too small writer still yields an I/O error for a consistent chain
    let mut small = [0u8; 9];
    let mut cursor = std::io::Cursor::new(&mut small[..]);
    let err = exts
        .write(&mut cursor, IpNumber::IPV6_FRAGMENTATION_HEADER)
        .unwrap_err();
    assert!(err.io().is_some());
}
