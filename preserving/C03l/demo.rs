// Demo for seed C03l.
//
// An IPv4 header that announces options (IHL = 6 -> 24 byte header) but is cut
// short before even the 20 byte base header is complete.
//
// Two "required lengths" are equally true for such data: at least the 20
// bytes of the base header are needed AND the 24 bytes of the complete header
// are needed. `SlicedPacket::from_ether_type(IPV4, ..)`, `Ipv4Slice::from_slice`
// and `PacketHeaders::from_ip_slice` have always named 20 for these bytes,
// only `SlicedPacket::from_ip` / `IpSlice::from_slice` named 24.
//
// With the change `from_ip` names 20 as well. Nothing else differs: it is
// still the same error variant (`Len`), the same layer (`Ipv4Header`), the
// same `len`, `len_source` and `layer_start_offset`, and the set of inputs
// on which slicing fails is untouched.

use etherparse::err::{packet::SliceError, Layer, LenError};
use etherparse::{ether_type, IpSlice, LenSource, SlicedPacket};

/// version 4, ihl 6 (24 byte header), cut after 3 bytes
const DATA: [u8; 3] = [0x46, 0x00, 0x00];

#[test]
fn from_ip_names_base_header_len_while_base_header_is_incomplete() {
    let expected = LenError {
        required_len: 20, // unchanged code: 24
        len: 3,
        len_source: LenSource::Slice,
        layer: Layer::Ipv4Header,
        layer_start_offset: 0,
    };

    // whole packet slicing started at an IP header
    assert_eq!(
        SlicedPacket::from_ip(&DATA).unwrap_err(),
        SliceError::Len(expected.clone())
    );

    // the underlying IP slicer
    assert_eq!(
        IpSlice::from_slice(&DATA).unwrap_err(),
        etherparse::err::ip::SliceError::Len(expected.clone())
    );

    // same bytes, started at the ether type: reports exactly the same error
    // (before and after the change)
    assert_eq!(
        SlicedPacket::from_ether_type(ether_type::IPV4, &DATA).unwrap_err(),
        SliceError::Len(expected)
    );
}

#[test]
fn complete_base_header_still_names_full_header_len() {
    // same header start but 20..23 bytes present: the base header is there,
    // the options are cut -> the complete header length (24) is named
    // (unchanged behaviour, shown to document where the difference ends).
    let mut data = [0u8; 23];
    data[0] = 0x46;
    for len in 20..24 {
        assert_eq!(
            SlicedPacket::from_ip(&data[..len]).unwrap_err(),
            SliceError::Len(LenError {
                required_len: 24,
                len,
                len_source: LenSource::Slice,
                layer: Layer::Ipv4Header,
                layer_start_offset: 0,
            })
        );
    }
}
