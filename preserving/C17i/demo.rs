//! Demo for seeded change C17i.
//!
//! An NDP option area whose first option has a type with a fixed size
//! (MTU: 1 unit, Prefix Information: 4 units), announces a DIFFERENT
//! number of length units, AND is additionally truncated carries two
//! faults at once: "length units inconsistent with the option type" and
//! "slice too short for the announced length".
//!
//! * unchanged code reports the truncation  (`UnexpectedEndOfSlice`)
//! * changed code reports the inconsistency (`UnexpectedSize`, the very
//!   same error the unchanged code already reports when enough bytes are
//!   present)
//!
//! In both versions the option is rejected, nothing is handed out for it
//! and the iterator is empty afterwards.

use etherparse::icmpv6::{
    MtuOptionSlice, NdpOptionReadError, NdpOptionSlice, NdpOptionType, NdpOptionsIterator,
    PrefixInformation,
};

#[test]
fn truncated_mtu_option_with_wrong_length_units() {
    // MTU option (type 5) announcing 2 units (16 bytes), only 8 bytes present.
    let bytes = [5u8, 2, 0, 0, 0, 0, 5, 220];
    let mut it = NdpOptionsIterator::from_slice(&bytes);
    assert_eq!(
        Some(Err(NdpOptionReadError::UnexpectedSize {
            option_id: NdpOptionType::MTU,
            expected_size: MtuOptionSlice::LEN, // 8, RFC 4861 4.6.4: Length = 1
            actual_size: 16,                    // what the length field announces
        })),
        it.next()
    );
    // rejected either way, iterator is drained
    assert_eq!(None, it.next());
    assert!(it.rest().is_empty());
}

#[test]
fn truncated_prefix_information_with_wrong_length_units() {
    // A valid MTU option followed by a Prefix Information option (type 3)
    // announcing 5 units (40 bytes) of which only 32 are present.
    let mut bytes = [0u8; 8 + 32];
    bytes[..8].copy_from_slice(&[5, 1, 0, 0, 0, 0, 5, 220]);
    bytes[8] = 3;
    bytes[9] = 5;
    let mut it = NdpOptionsIterator::from_slice(&bytes);

    // the options before the rejected one are handed out unchanged
    match it.next() {
        Some(Ok(NdpOptionSlice::Mtu(mtu))) => {
            assert_eq!(1500, mtu.mtu());
            assert_eq!(&bytes[..8], mtu.as_bytes());
        }
        other => panic!("unexpected {other:?}"),
    }
    assert_eq!(&bytes[8..], it.rest());

    assert_eq!(
        Some(Err(NdpOptionReadError::UnexpectedSize {
            option_id: NdpOptionType::PREFIX_INFORMATION,
            expected_size: PrefixInformation::LEN, // 32, RFC 4861 4.6.2: Length = 4
            actual_size: 40,
        })),
        it.next()
    );
    assert_eq!(None, it.next());
    assert!(it.rest().is_empty());
}
