//! Seed C11l: `IpDefragBuf` keeps its list of received sections ordered by
//! start offset instead of in "most recently added/merged last" order.
//!
//! Only the ORDER of the (identical) set of sections reported by the public
//! accessor `IpDefragBuf::sections()` (and with it the derived `Eq`/`Hash`/
//! `Ord`/`Debug` of `IpDefragBuf`) changes. Which bytes have been received,
//! when `is_complete()` turns true, the reassembled data and everything the
//! `IpDefragPool` returns are untouched.

use etherparse::defrag::{IpDefragBuf, IpDefragPool, IpFragRange};
use etherparse::{
    Ethernet2Header, EtherType, IpFragOffset, IpNumber, Ipv4Header, SlicedPacket,
};

fn seq(start: usize, len: usize) -> Vec<u8> {
    (start..start + len).map(|i| (i & 0xff) as u8).collect()
}

/// Fragments arriving back to front: the section list is now reported in
/// ascending offset order (old code: arrival order, i.e. descending here).
#[test]
fn sections_are_reported_in_offset_order() {
    let mut buf = IpDefragBuf::new(IpNumber::UDP, Vec::new(), Vec::new());

    // bytes 32..48 (last fragment), then 16..24, then 0..8: none of them touch
    buf.add(IpFragOffset::try_new(32 / 8).unwrap(), false, &seq(32, 16))
        .unwrap();
    buf.add(IpFragOffset::try_new(16 / 8).unwrap(), true, &seq(16, 8))
        .unwrap();
    buf.add(IpFragOffset::try_new(0).unwrap(), true, &seq(0, 8))
        .unwrap();
    assert!(!buf.is_complete());

    // unchanged code: [32..48, 16..24, 0..8]
    assert_eq!(
        buf.sections().as_slice(),
        &[
            IpFragRange { start: 0, end: 8 },
            IpFragRange { start: 16, end: 24 },
            IpFragRange { start: 32, end: 48 },
        ]
    );

    // a fragment that merges with the FIRST section stays in front
    // (unchanged code: the merged section moves to the back of the list)
    buf.add(IpFragOffset::try_new(8 / 8).unwrap(), true, &seq(8, 8))
        .unwrap();
    assert_eq!(
        buf.sections().as_slice(),
        &[
            IpFragRange { start: 0, end: 24 },
            IpFragRange { start: 32, end: 48 },
        ]
    );

    // completion & content are exactly what they always were
    assert!(!buf.is_complete());
    buf.add(IpFragOffset::try_new(24 / 8).unwrap(), true, &seq(24, 8))
        .unwrap();
    assert!(buf.is_complete());
    assert_eq!(buf.end(), Some(48));
    assert_eq!(
        buf.sections().as_slice(),
        &[IpFragRange { start: 0, end: 48 }]
    );
    assert_eq!(buf.take_bufs().0, seq(0, 48));
}

/// Control (passes with and without the change): the pool still hands out the
/// original payload exactly once, on the delivery of the last missing byte.
#[test]
fn pool_result_is_unchanged() {
    fn packet(offset_bytes: u16, more: bool, payload: &[u8]) -> Vec<u8> {
        let mut ip = Ipv4Header::new(
            payload.len() as u16,
            20,
            IpNumber::UDP,
            [1, 2, 3, 4],
            [5, 6, 7, 8],
        )
        .unwrap();
        ip.identification = 42;
        ip.more_fragments = more;
        ip.fragment_offset = IpFragOffset::try_new(offset_bytes / 8).unwrap();
        ip.header_checksum = ip.calc_header_checksum();
        let mut v = Vec::new();
        v.extend_from_slice(
            &Ethernet2Header {
                source: [0; 6],
                destination: [0; 6],
                ether_type: EtherType::IPV4,
            }
            .to_bytes(),
        );
        v.extend_from_slice(&ip.to_bytes());
        v.extend_from_slice(payload);
        v
    }

    let mut pool = IpDefragPool::<(), ()>::new();
    let history: [(u16, bool, Vec<u8>); 5] = [
        (32, false, seq(32, 16)),
        (16, true, seq(16, 8)),
        (0, true, seq(0, 8)),
        (8, true, seq(8, 8)),
        (24, true, seq(24, 8)),
    ];
    for (i, (offset, more, payload)) in history.iter().enumerate() {
        let data = packet(*offset, *more, payload);
        let sliced = SlicedPacket::from_ethernet(&data).unwrap();
        let r = pool.process_sliced_packet(&sliced, (), ()).unwrap();
        if i + 1 < history.len() {
            assert_eq!(r, None);
        } else {
            let r = r.unwrap();
            assert_eq!(r.ip_number, IpNumber::UDP);
            assert_eq!(r.payload, seq(0, 48));
        }
    }
}
