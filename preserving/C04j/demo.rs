//! Demo for seed C04j.
//!
//! Changed behaviour: if an IP header has to fall back to "the length of the
//! slice it was given" (IPv6 `payload_length == 0` in strict mode, additionally
//! an unset/too small/too big IPv4 `total_len` / IPv6 `payload_length` in lax
//! mode) and that slice had itself been cut to size by the short length of an
//! enclosing MACsec header, `PacketHeaders` & `LaxPacketHeaders` now name
//! `LenSource::MacsecShortLength` (instead of `LenSource::Slice`) as the
//! `len_source` *label* of the resulting IP payload (and of length errors of
//! the layers decoded from that payload).
//!
//! Everything property C04 talks about is unchanged and still agrees with the
//! slicing result: the decoded headers, the byte range of the remaining payload
//! and the verdict (Ok / Err / stop error present).

use etherparse::*;

fn macsec(next: EtherType, short_len: u8) -> MacsecHeader {
    MacsecHeader {
        ptype: MacsecPType::Unmodified(next),
        endstation_id: false,
        scb: false,
        an: MacsecAn::ZERO,
        short_len: MacsecShortLen::try_from_u8(short_len).unwrap(),
        packet_nr: 1,
        sci: None,
    }
}

/// Lax family: IPv4 header with an unset (0) total length inside a MACsec
/// frame whose short length limits the user data.
#[test]
fn lax_ip_payload_len_source_names_macsec_short_len() {
    // ether type (2) + ipv4 header (20) + ip payload (4)
    let m = macsec(ether_type::IPV4, 2 + 20 + 4);
    let mut ip = Ipv4Header::new(4, 20, IpNumber(253), [1, 2, 3, 4], [5, 6, 7, 8]).unwrap();
    ip.total_len = 0; // "not yet set" -> lax decoding falls back to the slice length

    let mut data = Vec::new();
    data.extend_from_slice(&m.to_bytes());
    data.extend_from_slice(&ip.to_bytes());
    data.extend_from_slice(&[0xa1, 0xa2, 0xa3, 0xa4]); // ip payload
    data.extend_from_slice(&[0; 6]); // padding behind the MACsec user data

    let headers = LaxPacketHeaders::from_ether_type(ether_type::MACSEC, &data);
    let sliced = LaxSlicedPacket::from_ether_type(ether_type::MACSEC, &data);

    // what C04 demands (holds with & without the change)
    assert_eq!(headers.link, None);
    assert_eq!(headers.link_exts.len(), 1);
    assert_eq!(headers.link_exts[0], sliced.link_exts[0].to_header());
    let sliced_ip = match sliced.net.as_ref().unwrap() {
        LaxNetSlice::Ipv4(s) => s,
        _ => panic!("ipv4 expected"),
    };
    assert_eq!(
        headers.net,
        Some(NetHeaders::Ipv4(
            sliced_ip.header().to_header(),
            sliced_ip.extensions().to_header()
        ))
    );
    assert_eq!(headers.transport, None);
    assert!(sliced.transport.is_none());
    assert_eq!(headers.stop_err.is_some(), sliced.stop_err.is_some());
    assert_eq!(headers.stop_err, None);
    let expected_payload = &data[8 + 20..8 + 20 + 4];
    assert_eq!(headers.payload.slice(), expected_payload);
    assert_eq!(sliced_ip.payload().payload, expected_payload);
    assert_eq!(
        headers.payload.slice().as_ptr(),
        sliced_ip.payload().payload.as_ptr()
    );

    // the label that changed (old: LenSource::Slice)
    assert_eq!(
        headers.payload,
        LaxPayloadSlice::Ip(LaxIpPayloadSlice {
            incomplete: false,
            ip_number: IpNumber(253),
            fragmented: false,
            len_source: LenSource::MacsecShortLength,
            payload: expected_payload,
        })
    );
    // the slicing family still reports what the IP layer on its own knows
    assert_eq!(sliced_ip.payload().len_source, LenSource::Slice);
}

/// Strict family: IPv6 header with payload length 0 (slice length fallback)
/// inside a MACsec frame whose short length limits the user data.
#[test]
fn strict_ip_payload_len_source_names_macsec_short_len() {
    // ether type (2) + ipv6 header (40) + ip payload (6)
    let m = macsec(ether_type::IPV6, 2 + 40 + 6);
    let ip = Ipv6Header {
        traffic_class: 0,
        flow_label: Ipv6FlowLabel::ZERO,
        payload_length: 0,
        next_header: IpNumber(253),
        hop_limit: 4,
        source: [1; 16],
        destination: [2; 16],
    };

    let mut data = Vec::new();
    data.extend_from_slice(&m.to_bytes());
    data.extend_from_slice(&ip.to_bytes());
    data.extend_from_slice(&[0xb1, 0xb2, 0xb3, 0xb4, 0xb5, 0xb6]); // ip payload
    data.extend_from_slice(&[0; 4]); // padding behind the MACsec user data

    let headers = PacketHeaders::from_ether_type(ether_type::MACSEC, &data).unwrap();
    let sliced = SlicedPacket::from_ether_type(ether_type::MACSEC, &data).unwrap();

    // what C04 demands (holds with & without the change)
    assert_eq!(headers.link, None);
    assert_eq!(headers.link_exts.len(), 1);
    assert_eq!(headers.link_exts[0], sliced.link_exts[0].to_header());
    let sliced_ip = match sliced.net.as_ref().unwrap() {
        NetSlice::Ipv6(s) => s,
        _ => panic!("ipv6 expected"),
    };
    assert_eq!(
        headers.net,
        Some(NetHeaders::Ipv6(
            sliced_ip.header().to_header(),
            Default::default()
        ))
    );
    assert!(sliced_ip.extensions().is_empty());
    assert_eq!(headers.transport, None);
    assert!(sliced.transport.is_none());
    let expected_payload = &data[8 + 40..8 + 40 + 6];
    assert_eq!(headers.payload.slice(), expected_payload);
    assert_eq!(sliced_ip.payload().payload, expected_payload);
    assert_eq!(
        headers.payload.slice().as_ptr(),
        sliced_ip.payload().payload.as_ptr()
    );

    // the label that changed (old: LenSource::Slice)
    assert_eq!(
        headers.payload,
        PayloadSlice::Ip(IpPayloadSlice {
            ip_number: IpNumber(253),
            fragmented: false,
            len_source: LenSource::MacsecShortLength,
            payload: expected_payload,
        })
    );
    assert_eq!(sliced_ip.payload().len_source, LenSource::Slice);
}

/// Same situation, but the transport header does not fit: both families still
/// give the same verdict (rejected), only the length source named inside the
/// error of the header struct family changed.
#[test]
fn strict_transport_len_error_names_macsec_short_len() {
    // ether type (2) + ipv6 header (40) + 5 bytes of an udp header
    let m = macsec(ether_type::IPV6, 2 + 40 + 5);
    let ip = Ipv6Header {
        traffic_class: 0,
        flow_label: Ipv6FlowLabel::ZERO,
        payload_length: 0,
        next_header: ip_number::UDP,
        hop_limit: 4,
        source: [1; 16],
        destination: [2; 16],
    };

    let mut data = Vec::new();
    data.extend_from_slice(&m.to_bytes());
    data.extend_from_slice(&ip.to_bytes());
    data.extend_from_slice(&[0; 5]); // cut off udp header
    data.extend_from_slice(&[0; 10]); // padding behind the MACsec user data

    let headers = PacketHeaders::from_ether_type(ether_type::MACSEC, &data);
    let sliced = SlicedPacket::from_ether_type(ether_type::MACSEC, &data);

    // same verdict
    assert!(headers.is_err());
    assert!(sliced.is_err());

    // old: len_source: LenSource::Slice
    assert_eq!(
        headers.unwrap_err(),
        err::packet::SliceError::Len(err::LenError {
            required_len: 8,
            len: 5,
            len_source: LenSource::MacsecShortLength,
            layer: err::Layer::UdpHeader,
            layer_start_offset: 8 + 40,
        })
    );
}
