//! Demo for seed C02j.
//!
//! Input: Ethernet II -> MACsec (unmodified payload, `short_len` = 4, next
//! ether type = VLAN) -> 2 of the 4 bytes of a VLAN header -> 16 trailing
//! bytes (e.g. the MACsec ICV).
//!
//! The MACsec short length cuts the MACsec payload down to 2 bytes, so the
//! VLAN header (4 bytes) can not be decoded. All four packet decoders report
//! this as a length error (an `Err` in the strict decoders, a `stop_err` in
//! the lax decoders) - before and after the change, nothing panics.
//!
//! What differs is the `len_source` label inside of that length error:
//!
//! * unchanged code: `LenSource::Slice` (even though the slice still has 16
//!   more bytes, the limit of 2 bytes comes from the MACsec header)
//! * changed code:   `LenSource::MacsecShortLength`
use etherparse::{
    err::{packet::SliceError, Layer, LenError},
    *,
};

fn packet() -> Vec<u8> {
    let eth = Ethernet2Header {
        source: [1, 2, 3, 4, 5, 6],
        destination: [7, 8, 9, 10, 11, 12],
        ether_type: EtherType::MACSEC,
    };
    let macsec = MacsecHeader {
        ptype: MacsecPType::Unmodified(EtherType::VLAN_TAGGED_FRAME),
        endstation_id: false,
        scb: false,
        an: MacsecAn::ZERO,
        // 2 bytes "next ether type" + 2 bytes of payload
        short_len: MacsecShortLen::try_from_u8(4).unwrap(),
        packet_nr: 1,
        sci: None,
    };
    let mut data = Vec::new();
    data.extend_from_slice(&eth.to_bytes());
    data.extend_from_slice(&macsec.to_bytes());
    // first half of a VLAN header (the other half is cut off by the short length)
    data.extend_from_slice(&[0x00, 0x01]);
    // data after the MACsec payload (ICV), NOT part of the MACsec payload
    data.extend_from_slice(&[0xaa; 16]);
    data
}

fn expected(layer_start_offset: usize) -> LenError {
    LenError {
        required_len: SingleVlanHeader::LEN,
        len: 2,
        // the unchanged code reports `LenSource::Slice` here
        len_source: LenSource::MacsecShortLength,
        layer: Layer::VlanHeader,
        layer_start_offset,
    }
}

#[test]
fn strict_decoders_name_the_macsec_short_length_as_len_source() {
    let data = packet();
    let macsec_len = 6 + 2; // sectag without sci + next ether type
    let offset = Ethernet2Header::LEN + macsec_len;

    assert_eq!(
        SlicedPacket::from_ethernet(&data).unwrap_err(),
        SliceError::Len(expected(offset))
    );
    assert_eq!(
        PacketHeaders::from_ethernet_slice(&data).unwrap_err(),
        SliceError::Len(expected(offset))
    );
    // same when starting at the MACsec header
    assert_eq!(
        SlicedPacket::from_ether_type(EtherType::MACSEC, &data[Ethernet2Header::LEN..])
            .unwrap_err(),
        SliceError::Len(expected(macsec_len))
    );
    assert_eq!(
        PacketHeaders::from_ether_type(EtherType::MACSEC, &data[Ethernet2Header::LEN..])
            .unwrap_err(),
        SliceError::Len(expected(macsec_len))
    );
}

#[test]
fn lax_decoders_name_the_macsec_short_length_as_len_source() {
    let data = packet();
    let offset = Ethernet2Header::LEN + 6 + 2;

    // in lax mode the same error is reported as stop error (not as `Err`)
    let sliced = LaxSlicedPacket::from_ethernet(&data).unwrap();
    assert_eq!(
        sliced.stop_err,
        Some((SliceError::Len(expected(offset)), Layer::VlanHeader))
    );
    let headers = LaxPacketHeaders::from_ethernet(&data).unwrap();
    assert_eq!(
        headers.stop_err,
        Some((SliceError::Len(expected(offset)), Layer::VlanHeader))
    );
}
