//! Demo for seed C14l.
//!
//! `IpHeaders::set_payload_len` adds the length of the extension headers to
//! the given length before it stores the sum in the IP header. If already this
//! addition overflows `usize` (only possible for lengths next to `usize::MAX`,
//! far above every wire field limit) the function builds the
//! `ValueTooBigError` itself. For an IPv6 header that error used to be labeled
//! with `ValueType::Ipv4PayloadLength`, it is now labeled with
//! `ValueType::Ipv6PayloadLength` (the field that really is too small).
//!
//! The offending value (`actual`), the allowed value (`max_allowed`), the
//! accept/reject decision and the untouched header are all the same as before.

use etherparse::err::{ValueTooBigError, ValueType};
use etherparse::*;

fn ipv6_with_fragment_header() -> IpHeaders {
    IpHeaders::Ipv6(
        Ipv6Header {
            payload_length: 1234,
            next_header: IpNumber::IPV6_FRAGMENTATION_HEADER,
            ..Default::default()
        },
        Ipv6Extensions {
            // 8 bytes of extension headers, so that `usize::MAX + 8` overflows
            fragment: Some(Ipv6FragmentHeader::new(
                IpNumber::UDP,
                IpFragOffset::ZERO,
                false,
                0,
            )),
            ..Default::default()
        },
    )
}

#[test]
fn ipv6_overflow_error_names_the_ipv6_payload_length() {
    // (1) the property itself is untouched (this part passes with and without
    // the seed): exactly the representable values are accepted, an accepted
    // value decodes to the value given, a rejected one yields an error with
    // the offending & the allowed value and leaves the header unchanged.
    let max = usize::from(u16::MAX) - Ipv6FragmentHeader::LEN;
    for len in [0, 1, max - 2, max - 1, max] {
        let mut headers = ipv6_with_fragment_header();
        headers.set_payload_len(len).unwrap();
        let (ipv6, _) = headers.ipv6().unwrap();
        assert_eq!(
            usize::from(ipv6.payload_length),
            len + Ipv6FragmentHeader::LEN
        );
    }
    for len in [max + 1, max + 2, 1 << 16, u32::MAX as usize] {
        let mut headers = ipv6_with_fragment_header();
        let before = headers.clone();
        assert_eq!(
            headers.set_payload_len(len),
            Err(ValueTooBigError {
                actual: len + Ipv6FragmentHeader::LEN,
                max_allowed: usize::from(u16::MAX),
                value_type: ValueType::Ipv6PayloadLength,
            })
        );
        assert_eq!(headers, before);
    }

    // (2) a length so close to usize::MAX that adding the extension header
    // length overflows
    let mut headers = ipv6_with_fragment_header();
    let before = headers.clone();
    let err = headers.set_payload_len(usize::MAX).unwrap_err();

    // unchanged by the seed: offending value, allowed value & header untouched
    assert_eq!(err.actual, usize::MAX);
    assert_eq!(err.max_allowed, max);
    assert_eq!(headers, before);

    // changed by the seed (was `ValueType::Ipv4PayloadLength`)
    assert_eq!(err.value_type, ValueType::Ipv6PayloadLength);
    assert_eq!(
        format!("{}", err),
        format!(
            "Error '{}' is too big to be a 'IPv6 Header 'Payload Length'' (maximum allowed value is '{}')",
            usize::MAX,
            max
        )
    );
}
