//! Demo for the property-preserving change C14j.
//!
//! `IpHeaders::set_payload_len(len)` takes the length of the data AFTER the ip
//! header and the extension headers and adds the length of the extension
//! headers itself. When the value does not fit, the unchanged code forwards
//! the error of the inner `Ipv4Header::set_payload_len` /
//! `Ipv6Header::set_payload_length` call, which is stated in terms of
//! "extension headers + len". The changed code states the very same fault in
//! terms of the argument the caller passed: `actual == len` and `max_allowed ==
//! biggest len that is accepted` (this is also what the function always
//! did in its own "addition overflowed" branch).
//!
//! Accepted set, encoding and "header unchanged on error" are identical in
//! both versions - only the (equally true) pair of numbers in the error differs.

use etherparse::err::{ValueTooBigError, ValueType};
use etherparse::*;

#[test]
fn ipv4_with_auth_ext_error_is_in_terms_of_the_argument() {
    // ipv4 header (20 bytes, no options) + authentication header (12 + 4 = 16 bytes)
    let auth = IpAuthHeader::new(ip_number::UDP, 1, 2, &[0u8; 4]).unwrap();
    let exts_len = auth.header_len();
    assert_eq!(16, exts_len);
    let ipv4 = Ipv4Header::new(0, 64, ip_number::AUTH, [1, 2, 3, 4], [5, 6, 7, 8]).unwrap();
    let mut headers = IpHeaders::Ipv4(ipv4, Ipv4Extensions { auth: Some(auth) });

    // true maximum of the argument
    let max = usize::from(u16::MAX) - Ipv4Header::MIN_LEN - exts_len;
    assert_eq!(65499, max);

    // the maximum is accepted & encoded exactly (same before & after the change)
    headers.set_payload_len(max).unwrap();
    assert_eq!(u16::MAX, headers.ipv4().unwrap().0.total_len);

    // one above is rejected, header left unchanged (same before & after the change)
    let before = headers.clone();
    let err = headers.set_payload_len(max + 1).unwrap_err();
    assert_eq!(before, headers);

    // DIFFERENCE: unchanged code reports { actual: 65516, max_allowed: 65515 }
    // (extension headers included), changed code reports the argument & its maximum.
    assert_eq!(
        err,
        ValueTooBigError {
            actual: max + 1,
            max_allowed: max,
            value_type: ValueType::Ipv4PayloadLength,
        }
    );
}

#[test]
fn ipv6_with_fragment_ext_error_is_in_terms_of_the_argument() {
    // ipv6 header + fragment header (8 bytes)
    let exts = Ipv6Extensions {
        hop_by_hop_options: None,
        destination_options: None,
        routing: None,
        fragment: Some(Ipv6FragmentHeader::new(
            ip_number::UDP,
            IpFragOffset::ZERO,
            true,
            1234,
        )),
        auth: None,
    };
    let exts_len = exts.header_len();
    assert_eq!(8, exts_len);
    let mut headers = IpHeaders::Ipv6(
        Ipv6Header {
            next_header: ip_number::IPV6_FRAG,
            ..Default::default()
        },
        exts,
    );

    // true maximum of the argument
    let max = usize::from(u16::MAX) - exts_len;
    assert_eq!(65527, max);

    // the maximum is accepted & encoded exactly (same before & after the change)
    headers.set_payload_len(max).unwrap();
    assert_eq!(u16::MAX, headers.ipv6().unwrap().0.payload_length);

    // one above is rejected, header left unchanged (same before & after the change)
    let before = headers.clone();
    let err = headers.set_payload_len(max + 1).unwrap_err();
    assert_eq!(before, headers);

    // DIFFERENCE: unchanged code reports { actual: 65536, max_allowed: 65535 }
    // (extension headers included), changed code reports the argument & its maximum.
    assert_eq!(
        err,
        ValueTooBigError {
            actual: max + 1,
            max_allowed: max,
            value_type: ValueType::Ipv6PayloadLength,
        }
    );
}

#[test]
fn without_extension_headers_nothing_changes() {
    // no extension headers: both conventions coincide, the error is the same
    // before & after the change (this test passes with & without the patch)
    let ipv4 = Ipv4Header::new(0, 64, ip_number::UDP, [1, 2, 3, 4], [5, 6, 7, 8]).unwrap();
    let mut headers = IpHeaders::Ipv4(ipv4, Default::default());
    let max = usize::from(u16::MAX) - Ipv4Header::MIN_LEN;
    assert_eq!(
        headers.set_payload_len(max + 1),
        Err(ValueTooBigError {
            actual: max + 1,
            max_allowed: max,
            value_type: ValueType::Ipv4PayloadLength,
        })
    );
}
