// Seed C13l: once the TCP options iterator has hit END or an error it drops
// its remaining input by switching to a (static) empty slice instead of
// re-slicing the caller's buffer to `[len..len]`.
//
// Everything the property C13 talks about is untouched: the elements, the
// error values, `rest().len() == 0` after the stop and `next() == None` for
// all following calls. The ONLY thing that differs is the *address* of the
// empty slice returned by `rest()` after exhaustion: the unchanged code
// returns an empty slice located exactly at the end of the input area, the
// changed code returns an empty slice that is not tied to the input buffer.

use etherparse::{tcp_option::*, TcpOptionElement, TcpOptionReadError, TcpOptionsIterator};

/// Iterates `area` until the iterator reports the stop and returns the
/// address of the (empty) `rest()` afterwards.
fn rest_ptr_after_stop(area: &[u8]) -> *const u8 {
    let mut it = TcpOptionsIterator::from_slice(area);
    while let Some(r) = it.next() {
        if r.is_err() {
            break;
        }
    }
    // the property: exhausted & stays exhausted (holds before and after)
    assert_eq!(0, it.rest().len());
    assert_eq!(None, it.next());
    assert_eq!(None, it.next());
    assert_eq!(0, it.rest().len());
    it.rest().as_ptr()
}

#[test]
fn rest_after_error_is_detached_from_input() {
    // NOOP followed by an unknown option kind (254) and some bytes
    let area = [KIND_NOOP, 254, 4, 0, 0, 0, 0, 0];
    {
        // same elements & error as ever
        let mut it = TcpOptionsIterator::from_slice(&area);
        assert_eq!(Some(Ok(TcpOptionElement::Noop)), it.next());
        assert_eq!(&area[1..], it.rest());
        assert_eq!(Some(Err(TcpOptionReadError::UnknownId(254))), it.next());
        assert_eq!(None, it.next());
    }
    // old: empty slice sitting at the end of `area`; new: detached empty slice
    assert_ne!(area.as_ptr_range().end, rest_ptr_after_stop(&area));

    // control: when the area is simply used up (no END, no error) nothing is
    // dropped, `rest()` is the empty tail of the input - with and without
    // the change.
    let used_up = [KIND_NOOP, KIND_NOOP, KIND_NOOP, KIND_NOOP];
    assert_eq!(used_up.as_ptr_range().end, rest_ptr_after_stop(&used_up));
}

#[test]
fn rest_after_end_is_detached_from_input() {
    // window scale, then END and padding
    let area = [KIND_WINDOW_SCALE, LEN_WINDOW_SCALE, 7, KIND_END, 0, 0, 0, 0];
    {
        let mut it = TcpOptionsIterator::from_slice(&area);
        assert_eq!(Some(Ok(TcpOptionElement::WindowScale(7))), it.next());
        assert_eq!(&area[3..], it.rest());
        assert_eq!(None, it.next());
    }
    assert_ne!(area.as_ptr_range().end, rest_ptr_after_stop(&area));
}
