//! Demo for seed C06i.
//!
//! `IpHeaders::read` now reads the IPv4 base header through
//! `Ipv4Header::read_without_version` (the same way its IPv6 branch already
//! uses `Ipv6Header::read_without_version`) instead of a private hand-copied
//! reader. The decoded headers and the number of bytes consumed on success
//! are unchanged. What changes:
//!
//! * the fixed 20 bytes are fetched BEFORE the `ihl` field is validated, so a
//!   truncated input that additionally has a too small `ihl` is rejected as
//!   "not enough data" (io error, like `IpHeaders::from_slice` which reports a
//!   `Len` error for it) instead of the `ihl` content error,
//! * the position of the reader after an `ihl` rejection is 20 instead of 1,
//! * the options are fetched with their own `read_exact` call.
use etherparse::*;
use std::io::{Cursor, Read, Seek, SeekFrom};

/// Reader that records the size of every `read` request it serves.
struct Recorder<'a> {
    inner: Cursor<&'a [u8]>,
    served: Vec<usize>,
}

impl<'a> Read for Recorder<'a> {
    fn read(&mut self, buf: &mut [u8]) -> std::io::Result<usize> {
        let n = self.inner.read(buf)?;
        self.served.push(n);
        Ok(n)
    }
}

impl<'a> Seek for Recorder<'a> {
    fn seek(&mut self, pos: SeekFrom) -> std::io::Result<u64> {
        self.inner.seek(pos)
    }
}

/// Truncated IPv4 header (1 byte) whose ihl (3) is also too small: two
/// faults are present at once.
#[test]
fn truncated_and_bad_ihl_is_reported_as_missing_data() {
    let data = [0x43u8];

    // slice door: "not enough data" (unchanged)
    let slice_err = IpHeaders::from_slice(&data).unwrap_err();
    assert!(matches!(slice_err, err::ip::HeadersSliceError::Len(_)));

    // reader door: old code -> Content(Ip(Ipv4HeaderLengthSmallerThanHeader{ihl: 3}))
    //              new code -> Io(UnexpectedEof), i.e. "not enough data" as well
    let mut cursor = Cursor::new(&data[..]);
    let read_err = IpHeaders::read(&mut cursor).unwrap_err();
    match read_err {
        err::ip::HeaderReadError::Io(e) => {
            assert_eq!(e.kind(), std::io::ErrorKind::UnexpectedEof)
        }
        other => panic!("expected an io error, got {:?}", other),
    }
}

/// Complete 20 bytes with a too small ihl: same rejection as before, but the
/// reader has been advanced past the fixed part of the header (old: 1 byte).
#[test]
fn position_after_ihl_rejection() {
    let mut data = [0u8; 24];
    data[0] = 0x43;
    let mut cursor = Cursor::new(&data[..]);
    let read_err = IpHeaders::read(&mut cursor).unwrap_err();
    assert_eq!(
        read_err.content().unwrap(),
        err::ip::HeadersError::Ip(err::ip::HeaderError::Ipv4HeaderLengthSmallerThanHeader {
            ihl: 3
        })
    );
    assert_eq!(cursor.position(), 20); // old code: 1
}

/// Valid header with options: same header, same number of bytes consumed,
/// but the bytes are requested in different portions.
#[test]
fn same_header_same_bytes_consumed_different_requests() {
    let mut header = Ipv4Header::new(0, 64, ip_number::UDP, [1, 2, 3, 4], [5, 6, 7, 8]).unwrap();
    header.options = [1u8, 2, 3, 4, 5, 6, 7, 8][..].try_into().unwrap();
    header.total_len = 28 + 8; // header (20 + 8 bytes options) + 8 bytes payload
    header.header_checksum = header.calc_header_checksum();
    let mut data = header.to_bytes().to_vec();
    data.extend_from_slice(&[0xaa; 8]); // bytes after the header must stay untouched

    let mut reader = Recorder {
        inner: Cursor::new(&data[..]),
        served: Vec::new(),
    };
    let (actual, next) = IpHeaders::read(&mut reader).unwrap();
    assert_eq!(actual, IpHeaders::Ipv4(header.clone(), Default::default()));
    assert_eq!(next, ip_number::UDP);
    // exactly the header bytes have been consumed (unchanged)
    assert_eq!(reader.inner.position(), 28);
    // old code: [1, 27], new code: [1, 19, 8]
    assert_eq!(reader.served, vec![1, 19, 8]);
}
