//! Demo for seed C15j.
//!
//! The `unsafe` "unchecked" constructors of the bounded integer types
//! (`VlanId::new_unchecked`, ..., `MacsecShortLen::from_u8_unchecked`) are
//! documented as "the caller must guarantee `value <= MAX`, otherwise the
//! behavior [...] is undefined". Handing them a value that does NOT fit is
//! therefore outside of everything property C15 quantifies over (checked
//! constructors, decoding of bytes, encoding of headers holding in-range
//! values).
//!
//! * unchanged code: `debug_assert!(value <= MAX)` -> in a debug/test build
//!   the call panics (and in a release build the out-of-range value is
//!   stored as it is).
//! * changed code: no panic, the value is reduced to the lower N bits of
//!   the field.
//!
//! Both tests PASS with the change and FAIL (panic in the first unchecked
//! constructor call) without it.

use etherparse::igmp::Qrv;
use etherparse::*;

/// An oversized value given to an unchecked constructor is truncated to the
/// bit width of the field instead of triggering the debug assertion.
#[test]
fn unchecked_constructors_truncate_instead_of_panicking() {
    // SAFETY (changed code): every input is reduced to an in-range value.
    unsafe {
        // 12 bit VLAN id
        assert_eq!(VlanId::new_unchecked(0x1abc).value(), 0x0abc);
        assert_eq!(VlanId::new_unchecked(u16::MAX).value(), VlanId::MAX_U16);
        // 3 bit VLAN priority code point
        assert_eq!(VlanPcp::new_unchecked(0b1000_0101).value(), 0b101);
        // 6 bit DSCP
        assert_eq!(IpDscp::new_unchecked(0b1100_0001).value(), 0b00_0001);
        // 2 bit ECN
        assert_eq!(IpEcn::new_unchecked(0b0000_0110), IpEcn::Ect0);
        // 13 bit fragment offset
        assert_eq!(IpFragOffset::new_unchecked(0xe001).value(), 0x0001);
        // 20 bit IPv6 flow label
        assert_eq!(
            Ipv6FlowLabel::new_unchecked(0xfffa_bcde).value(),
            0x000a_bcde
        );
        // 2 bit MACsec association number
        assert_eq!(MacsecAn::new_unchecked(0b0000_0101).value(), 0b01);
        // 6 bit MACsec short length
        assert_eq!(
            MacsecShortLen::from_u8_unchecked(0b0100_0011).value(),
            0b0000_0011
        );
        // 3 bit IGMPv3 QRV
        assert_eq!(Qrv::new_unchecked(0b0000_1010).value(), 0b010);
    }

    // in-range values are (of course) still passed through unchanged
    unsafe {
        assert_eq!(VlanId::new_unchecked(0x0abc).value(), 0x0abc);
        assert_eq!(Qrv::new_unchecked(7).value(), 7);
    }
}

/// Consequence for the encoders: even a value that was created by violating
/// the contract of `new_unchecked` can no longer reach the PCP & DEI bits of
/// a VLAN header.
#[test]
fn oversized_unchecked_vlan_id_can_not_reach_pcp_and_dei() {
    let header = SingleVlanHeader {
        pcp: VlanPcp::ZERO,
        drop_eligible_indicator: false,
        // bit 12 would be the "drop eligible indicator" & bits 13-15 the "pcp"
        vlan_id: unsafe { VlanId::new_unchecked(0xf123) },
        ether_type: EtherType(0),
    };
    assert_eq!(header.to_bytes(), [0x01, 0x23, 0, 0]);
}
