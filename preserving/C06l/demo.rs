//! Seed C06l: where the reader stands after `Ipv4Header::read`, `Ipv6Header::read`
//! or `IpHeaders::read` REJECTED the data because of its IP version number.
//!
//! Unchanged code: the inspected version byte stays consumed (position 1).
//! Changed code:   the version byte is put back (position 0), so the very same
//!                 reader can be handed to the decoder of the other IP version.
//!
//! The answers themselves (header on success, rejection reason on failure, number
//! of bytes consumed by a successful read) are identical before and after.

use etherparse::*;
use std::io::Cursor;

fn ipv4_bytes() -> Vec<u8> {
    let h = Ipv4Header::new(0, 64, IpNumber::UDP, [192, 168, 0, 1], [192, 168, 0, 2]).unwrap();
    h.to_bytes().to_vec()
}

fn ipv6_bytes() -> Vec<u8> {
    let h = Ipv6Header {
        traffic_class: 0,
        flow_label: Ipv6FlowLabel::ZERO,
        payload_length: 0,
        next_header: IpNumber::UDP,
        hop_limit: 4,
        source: [1; 16],
        destination: [2; 16],
    };
    h.to_bytes().to_vec()
}

#[test]
fn ipv4_read_puts_the_version_byte_back_on_a_version_rejection() {
    let bytes = ipv6_bytes();
    let mut cursor = Cursor::new(&bytes[..]);

    // same rejection, for the same reason, as the slice decoder
    let read_err = Ipv4Header::read(&mut cursor).unwrap_err();
    assert_eq!(
        read_err.content_error().unwrap(),
        err::ipv4::HeaderError::UnexpectedVersion { version_number: 6 }
    );
    assert_eq!(
        Ipv4Header::from_slice(&bytes).unwrap_err(),
        err::ipv4::HeaderSliceError::Content(err::ipv4::HeaderError::UnexpectedVersion {
            version_number: 6
        })
    );

    // THE DIFFERENCE: old code leaves the reader at 1, new code at 0 ...
    assert_eq!(cursor.position(), 0);

    // ... so that the same reader can directly be given to the IPv6 decoder
    let (expected, _) = Ipv6Header::from_slice(&bytes).unwrap();
    assert_eq!(Ipv6Header::read(&mut cursor).unwrap(), expected);
    assert_eq!(cursor.position(), Ipv6Header::LEN as u64);
}

#[test]
fn ipv6_read_puts_the_version_byte_back_on_a_version_rejection() {
    let bytes = ipv4_bytes();
    let mut cursor = Cursor::new(&bytes[..]);

    let read_err = Ipv6Header::read(&mut cursor).unwrap_err();
    assert_eq!(
        read_err.content_error().unwrap(),
        err::ipv6::HeaderError::UnexpectedVersion { version_number: 4 }
    );

    // old: 1, new: 0
    assert_eq!(cursor.position(), 0);

    let (expected, _) = Ipv4Header::from_slice(&bytes).unwrap();
    assert_eq!(Ipv4Header::read(&mut cursor).unwrap(), expected);
    assert_eq!(cursor.position(), expected.header_len() as u64);
}

#[test]
fn ip_headers_read_puts_the_version_byte_back_on_an_unsupported_version() {
    let mut bytes = ipv4_bytes();
    bytes[0] = (5 << 4) | (bytes[0] & 0xf); // IP version 5
    let mut cursor = Cursor::new(&bytes[..]);

    let read_err = IpHeaders::read(&mut cursor).unwrap_err();
    assert_eq!(
        read_err.content().unwrap(),
        err::ip::HeadersError::Ip(err::ip::HeaderError::UnsupportedIpVersion {
            version_number: 5
        })
    );

    // old: 1, new: 0
    assert_eq!(cursor.position(), 0);
}
