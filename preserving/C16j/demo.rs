//! Demo for the C16j change: `LimitedReader::read_exact` charges the requested
//! length to the budget even if the underlying reader fails with an io error
//! (it is unspecified how many bytes a failed `std::io::Read::read_exact`
//! consumed, only that it is never more than `buf.len()`).
//!
//! Unchanged code: the state of the `LimitedReader` after an io error is the
//! state before the failed call (`read_len()` unchanged), so the bytes the
//! underlying reader handed out during the failed call are "forgotten" and a
//! later read can pull more than the limit from the underlying reader.
//!
//! Changed code: `read_len()` includes the failed request, later reads are
//! measured against the reduced budget.

use etherparse::{err::Layer, io::LimitedReader, LenSource};
use std::cell::Cell;
use std::io::{self, Read};
use std::rc::Rc;

/// Source that hands out at most `available` bytes and then reports
/// `WouldBlock` until more data "arrives" (like a non blocking socket).
/// Every byte handed out is counted in `pulled`.
struct Trickle {
    available: Rc<Cell<usize>>,
    pulled: Rc<Cell<usize>>,
}

impl Read for Trickle {
    fn read(&mut self, buf: &mut [u8]) -> io::Result<usize> {
        let available = self.available.get();
        if available == 0 {
            return Err(io::ErrorKind::WouldBlock.into());
        }
        let n = core::cmp::min(available, buf.len());
        for b in &mut buf[..n] {
            *b = 0xAA;
        }
        self.available.set(available - n);
        self.pulled.set(self.pulled.get() + n);
        Ok(n)
    }
}

#[test]
fn failed_read_is_charged_to_the_budget() {
    let available = Rc::new(Cell::new(3));
    let pulled = Rc::new(Cell::new(0));
    const LIMIT: usize = 6;

    let mut r = LimitedReader::new(
        Trickle {
            available: available.clone(),
            pulled: pulled.clone(),
        },
        LIMIT,
        LenSource::Ipv6HeaderPayloadLen,
        40,
        Layer::Ipv6HopByHopHeader,
    );

    // 4 bytes requested (allowed by the limit), only 3 are there: the
    // underlying reader hands out 3 bytes & then fails -> io error
    // (same result with & without the change).
    let mut buf = [0u8; 4];
    let err = r.read_exact(&mut buf).unwrap_err();
    assert_eq!(io::ErrorKind::WouldBlock, err.io().unwrap().kind());
    assert_eq!(3, pulled.get());

    // DIFFERENCE 1: state after the io error.
    //   unchanged code: read_len() == 0 (the 3 consumed bytes are forgotten)
    //   changed code:   read_len() == 4 (worst case of the failed request)
    assert_eq!(4, r.read_len());
    assert_eq!(LIMIT, r.max_len());

    // more data arrives, the caller tries again
    available.set(100);

    // DIFFERENCE 2: a second 4 byte read
    //   unchanged code: Ok(()) -> 3 + 4 = 7 bytes pulled through a reader
    //                   limited to 6 bytes
    //   changed code:   len error, nothing is pulled from the reader
    let err = r.read_exact(&mut buf).unwrap_err();
    let len_err = err.len().unwrap();
    assert_eq!(LIMIT, len_err.len);
    assert_eq!(LenSource::Ipv6HeaderPayloadLen, len_err.len_source);
    assert_eq!(Layer::Ipv6HopByHopHeader, len_err.layer);
    assert_eq!(40, len_err.layer_start_offset);
    assert!(len_err.required_len > len_err.len);
    assert_eq!(3, pulled.get());

    // what still fits in the remaining budget can be read
    let mut buf2 = [0u8; 2];
    r.read_exact(&mut buf2).unwrap();
    assert_eq!([0xAA, 0xAA], buf2);
    assert_eq!(6, r.read_len());

    // and the budget is exhausted now
    let mut buf1 = [0u8; 1];
    assert!(r.read_exact(&mut buf1).unwrap_err().len().is_some());

    // over the whole history the underlying reader was never asked for more
    // than the limit (with the unchanged code 9 bytes are pulled here).
    assert!(pulled.get() <= LIMIT);
    assert_eq!(5, pulled.get());
}
