//! Seed C07l: `Ipv6RawExtHeader::read_limited` (and with it
//! `Ipv6Extensions::read_limited` & `IpHeaders::read`) states a different - but
//! equally true - `required_len` when the length limit of the upper layer (IPv6
//! "payload length") leaves less than two bytes for a generic IPv6 extension
//! header.
//!
//! unchanged code: `required_len: 2` (size of the first partial read: "next
//!                 header" & "hdr ext len")
//! changed code:   `required_len: 8` (`Ipv6RawExtHeader::MIN_LEN`, the minimum size
//!                 of an IPv6 extension header, the number the slice based
//!                 `Ipv6RawExtHeaderSlice::from_slice` always stated)
//!
//! Layer, offset, available length & length source are the same as before and
//! `required_len > len` holds for both.

use etherparse::{err::*, io::LimitedReader, *};
use std::io::Cursor;

fn ipv6_with_payload_len(payload_length: u16, next_header: IpNumber) -> Vec<u8> {
    Ipv6Header {
        traffic_class: 0,
        flow_label: Ipv6FlowLabel::ZERO,
        payload_length,
        next_header,
        hop_limit: 64,
        source: [1; 16],
        destination: [2; 16],
    }
    .to_bytes()
    .to_vec()
}

/// IPv6 header whose payload length (1) cuts of the hop by hop header
/// directly behind it after its first byte.
#[test]
fn ip_headers_read_first_ext_header_cut_off_by_payload_len() {
    let mut bytes = ipv6_with_payload_len(1, ip_number::IPV6_HOP_BY_HOP);
    // complete (8 byte) hop by hop header is present in the data
    bytes.extend_from_slice(&[ip_number::UDP.0, 0, 1, 4, 0, 0, 0, 0]);
    // + some more data
    bytes.extend_from_slice(&[0; 16]);

    let mut cursor = Cursor::new(&bytes[..]);
    let err = IpHeaders::read(&mut cursor).unwrap_err().len().unwrap();
    assert_eq!(
        err,
        LenError {
            // was 2 in the unchanged code
            required_len: Ipv6RawExtHeader::MIN_LEN,
            len: 1,
            len_source: LenSource::Ipv6HeaderPayloadLen,
            layer: Layer::Ipv6ExtHeader,
            layer_start_offset: Ipv6Header::LEN,
        }
    );
    // property relevant relation
    assert!(err.required_len > err.len);
}

/// Same for an extension header that is not the first one (non trivial offset).
#[test]
fn ip_headers_read_second_ext_header_cut_off_by_payload_len() {
    let mut bytes = ipv6_with_payload_len(8 + 1, ip_number::IPV6_HOP_BY_HOP);
    // hop by hop header (8 bytes) followed by a routing header
    bytes.extend_from_slice(&[ip_number::IPV6_ROUTE.0, 0, 1, 4, 0, 0, 0, 0]);
    // routing header (8 bytes, only 1 of them inside of the ipv6 payload length)
    bytes.extend_from_slice(&[ip_number::UDP.0, 0, 0, 0, 0, 0, 0, 0]);
    bytes.extend_from_slice(&[0; 16]);

    let mut cursor = Cursor::new(&bytes[..]);
    let err = IpHeaders::read(&mut cursor).unwrap_err().len().unwrap();
    assert_eq!(
        err,
        LenError {
            // was 2 in the unchanged code
            required_len: Ipv6RawExtHeader::MIN_LEN,
            len: 1,
            len_source: LenSource::Ipv6HeaderPayloadLen,
            layer: Layer::Ipv6ExtHeader,
            layer_start_offset: Ipv6Header::LEN + 8,
        }
    );
}

/// Direct use of the limited reader based functions.
#[test]
fn read_limited_without_space_for_the_first_two_bytes() {
    let data = [ip_number::UDP.0, 0, 0, 0, 0, 0, 0, 0];
    for max_len in 0..2 {
        let expected = LenError {
            // was 2 in the unchanged code
            required_len: Ipv6RawExtHeader::MIN_LEN,
            len: max_len,
            len_source: LenSource::Ipv6HeaderPayloadLen,
            layer: Layer::Ipv6ExtHeader,
            layer_start_offset: 40,
        };
        {
            let mut reader = LimitedReader::new(
                Cursor::new(&data[..]),
                max_len,
                LenSource::Ipv6HeaderPayloadLen,
                40,
                Layer::Ipv6Header,
            );
            assert_eq!(
                Ipv6RawExtHeader::read_limited(&mut reader)
                    .unwrap_err()
                    .len()
                    .unwrap(),
                expected
            );
        }
        {
            let mut reader = LimitedReader::new(
                Cursor::new(&data[..]),
                max_len,
                LenSource::Ipv6HeaderPayloadLen,
                40,
                Layer::Ipv6Header,
            );
            assert_eq!(
                Ipv6Extensions::read_limited(&mut reader, ip_number::IPV6_DEST_OPTIONS)
                    .unwrap_err()
                    .len()
                    .unwrap(),
                expected
            );
        }
    }

    // unchanged in both versions: as soon as the "hdr ext len" field is inside
    // of the limit the exact header length is stated
    for max_len in 2..8 {
        let mut reader = LimitedReader::new(
            Cursor::new(&data[..]),
            max_len,
            LenSource::Ipv6HeaderPayloadLen,
            40,
            Layer::Ipv6Header,
        );
        assert_eq!(
            Ipv6RawExtHeader::read_limited(&mut reader)
                .unwrap_err()
                .len()
                .unwrap(),
            LenError {
                required_len: 8,
                len: max_len,
                len_source: LenSource::Ipv6HeaderPayloadLen,
                layer: Layer::Ipv6ExtHeader,
                layer_start_offset: 40,
            }
        );
    }
}
