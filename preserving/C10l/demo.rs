// Demo for seed C10l.
//
// An ICMPv4 timestamp / timestamp reply message has a fixed size of 20 bytes
// (everything is part of the header, `Icmpv4Type::fixed_payload_size()` is
// `Some(0)`). A packet with additional bytes after such a header is rejected
// by the strict parsers of the crate, so a non empty payload is NOT "a payload
// the chosen message type admits" (the inputs property C10 excludes from its
// parse-back clause).
//
// unchanged code: the builder happily writes 20 + 20 + 4 bytes (which no
//                 strict parser accepts)
// changed code:   all three write methods refuse with a `PayloadLen` error
//
// With an admitted (= empty) payload nothing changes.
use etherparse::err::packet::{BuildSliceWriteError, BuildVecWriteError, BuildWriteError};
use etherparse::err::ValueTooBigError;
use etherparse::*;

fn timestamp() -> Icmpv4Type {
    Icmpv4Type::TimestampRequest(icmpv4::TimestampMessage {
        id: 1,
        seq: 2,
        originate_timestamp: 3,
        receive_timestamp: 4,
        transmit_timestamp: 5,
    })
}

fn builder() -> PacketBuilderStep<Icmpv4Header> {
    PacketBuilder::ipv4([192, 168, 1, 1], [192, 168, 1, 2], 20).icmpv4(timestamp())
}

fn is_fixed_size_error(err: &ValueTooBigError<usize>) -> bool {
    err.actual == 4 && err.max_allowed == 0
}

#[test]
fn timestamp_with_payload_is_refused() {
    let payload = [1u8, 2, 3, 4];

    // sanity: the strict parser does not accept what the unchanged
    // builder produces for this input (20 byte ipv4 header, 20 byte
    // timestamp message & 4 bytes of additional data)
    {
        let mut ip = Ipv4Header::new(24, 20, ip_number::ICMP, [192, 168, 1, 1], [192, 168, 1, 2])
            .unwrap();
        ip.header_checksum = ip.calc_header_checksum();
        let icmp = Icmpv4Header::with_checksum(timestamp(), &payload);
        let mut bytes = Vec::new();
        bytes.extend_from_slice(&ip.to_bytes());
        bytes.extend_from_slice(&icmp.to_bytes());
        bytes.extend_from_slice(&payload);
        assert_eq!(bytes.len(), builder().size(payload.len()));
        assert!(PacketHeaders::from_ip_slice(&bytes).is_err());
        assert!(SlicedPacket::from_ip(&bytes).is_err());
    }

    // write
    {
        let mut out = Vec::new();
        match builder().write(&mut out, &payload) {
            Err(BuildWriteError::PayloadLen(err)) => assert!(is_fixed_size_error(&err)),
            other => panic!("write: expected a PayloadLen error, got {:?}", other),
        }
    }
    // write_to_vec
    {
        let mut out = Vec::new();
        match builder().write_to_vec(&mut out, &payload) {
            Err(BuildVecWriteError::PayloadLen(err)) => assert!(is_fixed_size_error(&err)),
            other => panic!("write_to_vec: expected a PayloadLen error, got {:?}", other),
        }
    }
    // write_to_slice
    {
        let mut out = [0u8; 128];
        match builder().write_to_slice(&mut out, &payload) {
            Err(BuildSliceWriteError::PayloadLen(err)) => assert!(is_fixed_size_error(&err)),
            other => panic!(
                "write_to_slice: expected a PayloadLen error, got {:?}",
                other
            ),
        }
    }
}

#[test]
fn timestamp_without_payload_is_unchanged() {
    // the admitted payload: still written, of the announced size & parseable
    let mut out = Vec::new();
    let size = builder().size(0);
    builder().write(&mut out, &[]).unwrap();
    assert_eq!(out.len(), size);
    assert_eq!(size, 20 + 20);

    let parsed = PacketHeaders::from_ip_slice(&out).unwrap();
    match parsed.transport {
        Some(TransportHeader::Icmpv4(header)) => {
            assert_eq!(header.icmp_type, timestamp());
            assert_eq!(header.checksum, header.icmp_type.calc_checksum(&[]));
        }
        other => panic!("unexpected transport {:?}", other),
    }
}
