//! Seed C16l demo: `Ethernet2Header::write_to_slice` and
//! `LinuxSllHeader::write_to_slice` on a slice that is too short.
//!
//! Unchanged code: the space error is returned and the slice is left untouched.
//! Changed code: the same space error is returned (same `required_len`, `len`,
//! layer, offset), but the write is truncated `snprintf`-style: the slice has
//! been filled with the leading bytes of the header's encoding - which is a
//! prefix of the complete encoding, so property C16 still holds.

use etherparse::err::{Layer, SliceWriteSpaceError};
use etherparse::*;

const SENTINEL: u8 = 0xA5;

#[test]
fn ethernet2_truncated_write_leaves_prefix_of_encoding() {
    let header = Ethernet2Header {
        source: [1, 2, 3, 4, 5, 6],
        destination: [7, 8, 9, 10, 11, 12],
        ether_type: EtherType::IPV4,
    };
    let complete = header.to_bytes();

    for len in 0..Ethernet2Header::LEN {
        // the target slice is embedded in a bigger buffer so that a write
        // outside of the given slice would be noticed
        let mut buffer = [SENTINEL; Ethernet2Header::LEN + 8];
        let err = header.write_to_slice(&mut buffer[4..4 + len]).unwrap_err();

        // the error is the same with & without the change
        assert_eq!(
            err,
            SliceWriteSpaceError {
                required_len: Ethernet2Header::LEN,
                len,
                layer: Layer::Ethernet2Header,
                layer_start_offset: 0,
            }
        );

        // nothing outside of the given slice has been touched
        // (same with & without the change)
        assert!(buffer[..4].iter().all(|b| *b == SENTINEL));
        assert!(buffer[4 + len..].iter().all(|b| *b == SENTINEL));

        // NEW: what has been written is the leading part of the complete
        // encoding (the unchanged code leaves the SENTINEL bytes in place,
        // so this fails for every len >= 1 without the change)
        assert_eq!(&buffer[4..4 + len], &complete[..len]);
    }
}

#[test]
fn linux_sll_truncated_write_leaves_prefix_of_encoding() {
    let header = LinuxSllHeader {
        packet_type: LinuxSllPacketType::OUTGOING,
        arp_hrd_type: ArpHardwareId::ETHERNET,
        sender_address_valid_length: 6,
        sender_address: [1, 2, 3, 4, 5, 6, 0, 0],
        protocol_type: LinuxSllProtocolType::EtherType(EtherType::IPV6),
    };
    let complete = header.to_bytes();

    for len in 0..LinuxSllHeader::LEN {
        let mut buffer = [SENTINEL; LinuxSllHeader::LEN + 8];
        let err = header.write_to_slice(&mut buffer[4..4 + len]).unwrap_err();
        assert_eq!(
            err,
            SliceWriteSpaceError {
                required_len: LinuxSllHeader::LEN,
                len,
                layer: Layer::LinuxSllHeader,
                layer_start_offset: 0,
            }
        );
        assert!(buffer[..4].iter().all(|b| *b == SENTINEL));
        assert!(buffer[4 + len..].iter().all(|b| *b == SENTINEL));
        // NEW (fails without the change for every len >= 1)
        assert_eq!(&buffer[4..4 + len], &complete[..len]);
    }
}

/// Not changed: with enough space the complete header is written & the
/// unused rest of the slice is returned (passes with & without the change).
#[test]
fn sufficient_space_is_unchanged() {
    let header = Ethernet2Header {
        source: [1, 2, 3, 4, 5, 6],
        destination: [7, 8, 9, 10, 11, 12],
        ether_type: EtherType::ARP,
    };
    let mut buffer = [SENTINEL; Ethernet2Header::LEN + 1];
    let rest_len = header.write_to_slice(&mut buffer).unwrap().len();
    assert_eq!(rest_len, 1);
    assert_eq!(&buffer[..Ethernet2Header::LEN], &header.to_bytes());
    assert_eq!(buffer[Ethernet2Header::LEN], SENTINEL);
}
