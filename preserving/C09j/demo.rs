//! Demo for the property-preserving change C09j.
//!
//! `etherparse::checksum::u64_16bit_word::add_slice` now sums up complete
//! 32 byte blocks as eight 32 bit words (one end-around carry per block)
//! instead of four 64 bit words (one end-around carry per 8 bytes).
//!
//! The RAW 64 bit accumulator that `add_slice` returns is therefore different
//! for inputs of 32 bytes or more (the odd 32 bit words are now added to the
//! lower half of the accumulator instead of the upper half). The 16 bit
//! checksum that results from folding the accumulator (`ones_complement`,
//! `ones_complement_with_no_zero`) is unchanged, as 2^32 = 1 (mod 0xffff).

use etherparse::checksum::{u32_16bit_word, u64_16bit_word, Sum16BitWords};

/// Independent RFC 1071 reference (big endian 16 bit words, odd
/// length padded with a zero byte, end around carry, complemented).
fn rfc1071(data: &[u8]) -> u16 {
    let mut sum: u32 = 0;
    for c in data.chunks(2) {
        let word = u16::from_be_bytes([c[0], if c.len() > 1 { c[1] } else { 0 }]);
        sum += u32::from(word);
        sum = (sum & 0xffff) + (sum >> 16);
    }
    !(sum as u16)
}

fn data() -> [u8; 32] {
    let mut d = [0u8; 32];
    for (i, b) in d.iter_mut().enumerate() {
        *b = (i as u8) + 1;
    }
    d
}

/// PASSES with the change, FAILS without it.
#[test]
fn raw_u64_accumulator_of_a_32_byte_block() {
    let d = data();

    // new: the block is added as eight 32 bit words
    let as_u32_words: u64 = d
        .chunks(4)
        .map(|w| u64::from(u32::from_ne_bytes([w[0], w[1], w[2], w[3]])))
        .sum();
    // old: the block was added as four 64 bit words
    // (no carry out of 64 bit for this input)
    let as_u64_words: u64 = d
        .chunks(8)
        .map(|w| u64::from_ne_bytes([w[0], w[1], w[2], w[3], w[4], w[5], w[6], w[7]]))
        .sum();
    assert_ne!(as_u32_words, as_u64_words);

    let raw = u64_16bit_word::add_slice(0, &d);

    // on a little endian target:
    //   changed code:   0x0000_0000_9088_8078
    //   unchanged code: 0x504c_4844_403c_3834
    #[cfg(target_endian = "little")]
    {
        assert_eq!(0x0000_0000_9088_8078, as_u32_words);
        assert_eq!(0x504c_4844_403c_3834, as_u64_words);
    }
    assert_eq!(raw, as_u32_words);
    assert_ne!(raw, as_u64_words);

    // the property is untouched: both raw values fold to the
    // RFC 1071 checksum (the helpers work on native endian words
    // which is why the folded result has to be converted with `to_be`)
    assert_eq!(rfc1071(&d), u64_16bit_word::ones_complement(raw).to_be());
    assert_eq!(
        rfc1071(&d),
        u64_16bit_word::ones_complement(as_u64_words).to_be()
    );
    assert_eq!(
        rfc1071(&d),
        u32_16bit_word::ones_complement(u32_16bit_word::add_slice(0, &d)).to_be()
    );
}

/// The same difference seen through `Sum16BitWords` (which uses the 64 bit
/// accumulator on 64 bit targets): `==` & `Debug` compare/print the raw
/// accumulator.
///
/// PASSES with the change, FAILS without it.
#[cfg(target_pointer_width = "64")]
#[test]
fn sum16bitwords_eq_compares_raw_accumulator() {
    let d = data();
    let mut by_slice = Sum16BitWords::new().add_slice(&d);
    let mut by_8bytes = Sum16BitWords::new();
    for w in d.chunks(8) {
        by_8bytes = by_8bytes.add_8bytes([w[0], w[1], w[2], w[3], w[4], w[5], w[6], w[7]]);
    }

    // unchanged code: equal (add_slice added the same four 64 bit words)
    assert_ne!(by_slice, by_8bytes);
    assert_ne!(format!("{:?}", by_slice), format!("{:?}", by_8bytes));

    // the checksums are identical & correct
    assert_eq!(by_slice.ones_complement(), by_8bytes.ones_complement());
    assert_eq!(rfc1071(&d), by_slice.ones_complement().to_be());
    assert_eq!(
        by_slice.to_ones_complement_with_no_zero(),
        by_8bytes.to_ones_complement_with_no_zero()
    );

    // and stay identical when more data gets added afterwards
    by_slice = by_slice.add_slice(&d[..7]);
    by_8bytes = by_8bytes.add_slice(&d[..7]);
    assert_eq!(by_slice.ones_complement(), by_8bytes.ones_complement());
}
