//! Demo for seed C11i.
//!
//! A "last" fragment (more_fragments == false) that declares an end of the
//! datagram which lies BEFORE data that was already accepted for the same
//! datagram is inconsistent with that data. The unchanged code only detects
//! this conflict when the "last" fragment arrives first (the later, longer
//! fragment is then rejected with `ConflictingEnd`). When the two fragments
//! arrive in the opposite order the unchanged code silently accepts the
//! "last" fragment, truncates the buffer and hands out a datagram.
//!
//! With the change the conflict is detected in both arrival orders.
use etherparse::defrag::*;
use etherparse::*;

/// Builds an IPv4 packet (no link layer) carrying one fragment.
fn ipv4_frag(identification: u16, offset_in_8: u16, more: bool, payload: &[u8]) -> Vec<u8> {
    let mut header = Ipv4Header {
        identification,
        more_fragments: more,
        fragment_offset: IpFragOffset::try_new(offset_in_8).unwrap(),
        protocol: IpNumber::UDP,
        source: [1, 2, 3, 4],
        destination: [5, 6, 7, 8],
        total_len: (Ipv4Header::MIN_LEN + payload.len()) as u16,
        time_to_live: 2,
        ..Default::default()
    };
    header.header_checksum = header.calc_header_checksum();
    let mut buf = Vec::with_capacity(Ipv4Header::MIN_LEN + payload.len());
    buf.extend_from_slice(&header.to_bytes());
    buf.extend_from_slice(payload);
    buf
}

fn feed(
    pool: &mut IpDefragPool<(), ()>,
    data: &[u8],
) -> Result<Option<IpDefragPayloadVec>, IpDefragError> {
    let sliced = SlicedPacket::from_ip(data).unwrap();
    pool.process_sliced_packet(&sliced, (), ())
}

/// bytes [0, 16), more fragments
fn frag_a() -> Vec<u8> {
    ipv4_frag(7, 0, true, &[0xaa; 16])
}

/// bytes [16, 32), more fragments
fn frag_long() -> Vec<u8> {
    ipv4_frag(7, 2, true, &[0xbb; 16])
}

/// bytes [16, 24), LAST fragment => claims the datagram is 24 bytes long,
/// which contradicts `frag_long` (it carries bytes up to 32).
fn frag_short_last() -> Vec<u8> {
    ipv4_frag(7, 2, false, &[0xcc; 8])
}

/// Reference order (identical with and without the change): the "last"
/// fragment is known first, the longer fragment is rejected.
#[test]
fn conflict_detected_when_last_fragment_arrives_first() {
    let mut pool = IpDefragPool::<(), ()>::new();
    assert_eq!(Ok(None), feed(&mut pool, &frag_a()));
    // completes the 24 byte datagram
    let done = feed(&mut pool, &frag_short_last()).unwrap().unwrap();
    assert_eq!(24, done.payload.len());

    let mut pool = IpDefragPool::<(), ()>::new();
    assert_eq!(Ok(None), feed(&mut pool, &frag_short_last()));
    assert_eq!(
        Err(IpDefragError::ConflictingEnd {
            previous_end: 24,
            conflicting_end: 32
        }),
        feed(&mut pool, &frag_long())
    );
}

/// Opposite order: the longer fragment was accepted first, then the
/// conflicting "last" fragment arrives.
///
/// * unchanged code: `Ok(Some(..))` with a 24 byte payload (buffer truncated)
/// * changed code:   `Err(ConflictingEnd { previous_end: 32, conflicting_end: 24 })`
#[test]
fn conflict_detected_when_last_fragment_arrives_second() {
    let mut pool = IpDefragPool::<(), ()>::new();
    assert_eq!(Ok(None), feed(&mut pool, &frag_a()));
    assert_eq!(Ok(None), feed(&mut pool, &frag_long()));
    assert_eq!(
        Err(IpDefragError::ConflictingEnd {
            previous_end: 32,
            conflicting_end: 24
        }),
        feed(&mut pool, &frag_short_last())
    );
}

/// Same difference directly on `IpDefragBuf`: the rejected fragment leaves
/// the buffer untouched (no end set, no truncation).
#[test]
fn buf_rejects_end_before_received_data() {
    let mut buf = IpDefragBuf::new(IpNumber::UDP, Vec::new(), Vec::new());
    buf.add(IpFragOffset::try_new(2).unwrap(), true, &[0xbb; 16])
        .unwrap();
    assert_eq!(
        Err(IpDefragError::ConflictingEnd {
            previous_end: 32,
            conflicting_end: 24
        }),
        buf.add(IpFragOffset::try_new(2).unwrap(), false, &[0xcc; 8])
    );
    assert_eq!(None, buf.end());
    assert_eq!(32, buf.data().len());
    assert_eq!(&[IpFragRange { start: 16, end: 32 }][..], &buf.sections()[..]);
}
