//! Demo for seed C05j.
//!
//! Changed behaviour: `LaxPacketHeaders::from_ethernet` / `from_ether_type`
//! now name `LenSource::MacsecShortLength` (instead of `LenSource::Slice`) as
//! `len_source` inside a *length stop error* of the ARP / IP header / IP
//! extension header layer when the data handed to that layer was cut to the
//! "short length" of an outer MACsec header. Everything else (decoded layers,
//! payload, stop layer, required_len, len, layer_start_offset, incomplete
//! flags, length source of the payloads) is untouched.
//!
//! `LaxSlicedPacket` already reported exactly this label for the same bytes
//! before the change; the tests below assert that both lax entry points now
//! agree.
use etherparse::{
    err::{packet::SliceError, Layer, LenError},
    *,
};

/// Ethernet II header (ether type MACsec) + unmodified MACsec SecTag without
/// SCI whose short length allows `payload_len` bytes after the inner ether
/// type. `trailing` are bytes behind the data covered by the short length.
fn eth_macsec(inner: EtherType, payload: &[u8], trailing: &[u8]) -> Vec<u8> {
    let mut data = Vec::new();
    // ethernet II
    data.extend_from_slice(&[1, 2, 3, 4, 5, 6]); // destination
    data.extend_from_slice(&[7, 8, 9, 10, 11, 12]); // source
    data.extend_from_slice(&ether_type::MACSEC.0.to_be_bytes());
    // MACsec SecTag: version 0, no SCI, not encrypted, not changed, AN 0
    data.push(0);
    // short length = ether type (2) + payload
    data.push((2 + payload.len()) as u8);
    // packet number
    data.extend_from_slice(&[0, 0, 0, 1]);
    // next ether type (unmodified payload)
    data.extend_from_slice(&inner.0.to_be_bytes());
    data.extend_from_slice(payload);
    data.extend_from_slice(trailing);
    data
}

const ETH_MACSEC_LEN: usize = 14 + 8;

fn len_stop_err(stop_err: &Option<(SliceError, Layer)>) -> (LenError, Layer) {
    match stop_err {
        Some((SliceError::Len(l), layer)) => (l.clone(), *layer),
        other => panic!("expected a length stop error, got {:?}", other),
    }
}

#[test]
fn ipv4_header_cut_by_macsec_short_len() {
    // complete IPv4 header (20 bytes) is in the slice, but the MACsec short
    // length only covers the first 12 bytes of it.
    let ipv4 = Ipv4Header::new(0, 1, ip_number::UDP, [1, 2, 3, 4], [5, 6, 7, 8])
        .unwrap()
        .to_bytes();
    let data = eth_macsec(ether_type::IPV4, &ipv4[..12], &ipv4[12..]);

    // strict parsing fails after the first header (IPv4 header too short)
    assert!(PacketHeaders::from_ethernet_slice(&data).is_err());

    let lax = LaxPacketHeaders::from_ethernet(&data).unwrap();

    // every layer in front of the fault is there, nothing else
    assert!(lax.link.is_some());
    assert_eq!(lax.link_exts.len(), 1);
    assert_eq!(lax.net, None);
    assert_eq!(lax.transport, None);
    // the MACsec (link layer) payload is complete (short length satisfied)
    assert_eq!(
        lax.payload,
        LaxPayloadSlice::Ether(LaxEtherPayloadSlice {
            incomplete: false,
            ether_type: ether_type::IPV4,
            len_source: LenSource::MacsecShortLength,
            payload: &ipv4[..12],
        })
    );

    // the fault is recorded as stop error on the ip header layer
    let (err, layer) = len_stop_err(&lax.stop_err);
    assert_eq!(layer, Layer::IpHeader);
    assert_eq!(err.layer, Layer::Ipv4Header);
    assert_eq!(err.required_len, 20);
    assert_eq!(err.len, 12);
    assert_eq!(err.layer_start_offset, ETH_MACSEC_LEN);

    // OLD: LenSource::Slice, NEW: LenSource::MacsecShortLength
    assert_eq!(err.len_source, LenSource::MacsecShortLength);

    // same stop error as the sibling lax entry point (before & after)
    let sliced = LaxSlicedPacket::from_ethernet(&data).unwrap();
    assert_eq!(sliced.stop_err, lax.stop_err);

    // without an outer MACsec short length nothing changes: the slice
    // stays the length source named by the stop error
    let lax = LaxPacketHeaders::from_ether_type(ether_type::IPV4, &ipv4[..12]);
    let (err, _) = len_stop_err(&lax.stop_err);
    assert_eq!(err.len_source, LenSource::Slice);
}

#[test]
fn arp_cut_by_macsec_short_len() {
    // ARP needs at least 8 bytes, the MACsec short length only covers 4
    let arp = [0u8, 1, 8, 0, 6, 4, 0, 1, 0, 0, 0, 0];
    let data = eth_macsec(ether_type::ARP, &arp[..4], &arp[4..]);

    assert!(PacketHeaders::from_ethernet_slice(&data).is_err());

    let lax = LaxPacketHeaders::from_ethernet(&data).unwrap();
    assert_eq!(lax.link_exts.len(), 1);
    assert_eq!(lax.net, None);

    let (err, layer) = len_stop_err(&lax.stop_err);
    assert_eq!(layer, Layer::Arp);
    assert_eq!(err.len, 4);
    assert_eq!(err.layer_start_offset, ETH_MACSEC_LEN);

    // OLD: LenSource::Slice, NEW: LenSource::MacsecShortLength
    assert_eq!(err.len_source, LenSource::MacsecShortLength);

    let sliced = LaxSlicedPacket::from_ethernet(&data).unwrap();
    assert_eq!(sliced.stop_err, lax.stop_err);
}

#[test]
fn ipv6_ext_header_cut_by_macsec_short_len() {
    // IPv6 header announcing 16 bytes of payload starting with a
    // hop by hop header, but the MACsec short length ends 4 bytes
    // after the IPv6 header.
    let ipv6 = Ipv6Header {
        traffic_class: 0,
        flow_label: Default::default(),
        payload_length: 16,
        next_header: ip_number::IPV6_HOP_BY_HOP,
        hop_limit: 4,
        source: [1; 16],
        destination: [2; 16],
    }
    .to_bytes();
    let mut ip = Vec::new();
    ip.extend_from_slice(&ipv6);
    // hop by hop header (next header UDP, 8 bytes long) + 8 bytes of data
    ip.extend_from_slice(&[ip_number::UDP.0, 0, 1, 4, 0, 0, 0, 0]);
    ip.extend_from_slice(&[0; 8]);
    let data = eth_macsec(ether_type::IPV6, &ip[..44], &ip[44..]);

    assert!(PacketHeaders::from_ethernet_slice(&data).is_err());

    let lax = LaxPacketHeaders::from_ethernet(&data).unwrap();
    assert_eq!(lax.link_exts.len(), 1);
    // ipv6 header decoded, payload handed out up to the end & incomplete
    assert!(lax.net.is_some());
    assert_eq!(
        lax.payload,
        LaxPayloadSlice::Ip(LaxIpPayloadSlice {
            incomplete: true,
            ip_number: ip_number::IPV6_HOP_BY_HOP,
            fragmented: false,
            len_source: LenSource::Slice,
            payload: &ip[40..44],
        })
    );

    let (err, layer) = len_stop_err(&lax.stop_err);
    assert_eq!(layer, Layer::Ipv6HopByHopHeader);
    assert_eq!(err.required_len, 8);
    assert_eq!(err.len, 4);
    assert_eq!(err.layer_start_offset, ETH_MACSEC_LEN + 40);

    // OLD: LenSource::Slice, NEW: LenSource::MacsecShortLength
    assert_eq!(err.len_source, LenSource::MacsecShortLength);

    let sliced = LaxSlicedPacket::from_ethernet(&data).unwrap();
    assert_eq!(sliced.stop_err, lax.stop_err);
}
