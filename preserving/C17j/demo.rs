//! Demo for the C17j seed: `Icmpv6Slice::payload_slice()` states the lengths of
//! a "fixed part of the neighbour discovery message is cut off" error relative
//! to the complete ICMPv6 message (the slice the `Icmpv6Slice` was created
//! from) instead of relative to the bytes after the 8 byte ICMPv6 header.
//!
//! WHICH inputs get rejected is unchanged (that is what property C17 is
//! about); only the two numbers the error states differ. Both statements are
//! true: "the payload needs 16 bytes but has 15" (unchanged code) and "the
//! ICMPv6 message needs 24 bytes but has 23" (changed code).

use etherparse::{
    err::{Layer, LenError},
    icmpv6::*,
    Icmpv6Slice, LenSource,
};

/// Builds an ICMPv6 message with the given type (code 0) & `payload_len`
/// zero bytes after the 8 byte header.
fn msg(type_u8: u8, payload_len: usize) -> Vec<u8> {
    let mut m = vec![0u8; 8 + payload_len];
    m[0] = type_u8;
    m
}

#[test]
fn payload_slice_len_error_is_relative_to_the_icmpv6_message() {
    // (type, length of the fixed part that follows the 8 byte header)
    let cases = [
        (TYPE_ROUTER_ADVERTISEMENT, 8usize),
        (TYPE_NEIGHBOR_SOLICITATION, 16),
        (TYPE_NEIGHBOR_ADVERTISEMENT, 16),
        (TYPE_REDIRECT_MESSAGE, 32),
    ];
    for (type_u8, fixed_len) in cases {
        // one byte short -> rejected (unchanged), e.g. a 23 byte
        // Neighbor Solicitation: [135, 0, 0, 0, 0, 0, 0, 0] + 15 bytes
        let bytes = msg(type_u8, fixed_len - 1);
        let slice = Icmpv6Slice::from_slice(&bytes).unwrap();
        assert_eq!(
            slice.payload_slice(),
            // unchanged code: required_len: fixed_len, len: fixed_len - 1
            Err(LenError {
                required_len: 8 + fixed_len,
                len: bytes.len(),
                len_source: LenSource::Slice,
                layer: Layer::Icmpv6,
                layer_start_offset: 0,
            })
        );

        // exactly long enough -> accepted, all of the payload is handed out
        // (unchanged)
        let bytes = msg(type_u8, fixed_len);
        let slice = Icmpv6Slice::from_slice(&bytes).unwrap();
        assert_eq!(slice.payload_slice().unwrap().slice(), &bytes[8..]);
    }
}
