//! Demo for seed C04i.
//!
//! `LaxPacketHeaders` now also takes the UDP length field into account when it
//! fills the `incomplete` flag of `LaxPayloadSlice::Udp` (this was a `TODO` in
//! `LaxPacketHeaders::add_ip`). Before the change only the IP layer could mark
//! an UDP payload as incomplete.
//!
//! Everything property C04 talks about (headers, byte range of the remaining
//! payload, accept/reject verdict) is identical between `LaxPacketHeaders` and
//! `LaxSlicedPacket` before and after the change; this is asserted below too.

use etherparse::*;

/// IPv4 + UDP packet with 4 payload bytes, whose UDP length field announces
/// 6 more bytes than are present (IPv4 total length matches the buffer).
fn ip_packet_with_too_big_udp_len(payload: &[u8]) -> Vec<u8> {
    let builder = PacketBuilder::ipv4([192, 168, 1, 1], [192, 168, 1, 2], 20).udp(21, 1234);
    let mut packet = Vec::with_capacity(builder.size(payload.len()));
    builder.write(&mut packet, payload).unwrap();

    // overwrite the udp length field (bytes 4..6 of the udp header)
    let announced = (UdpHeader::LEN + payload.len() + 6) as u16;
    let udp_start = Ipv4Header::MIN_LEN;
    packet[udp_start + 4..udp_start + 6].copy_from_slice(&announced.to_be_bytes());
    packet
}

/// Checks the parts C04 constrains (same for old & new code) and returns the
/// `incomplete` flag of the UDP payload reported by `LaxPacketHeaders`.
fn check_agreement_and_get_incomplete(
    headers: &LaxPacketHeaders,
    sliced: &LaxSlicedPacket,
    expected_payload: &[u8],
) -> bool {
    // same verdict: both accept the input without a stop error
    assert_eq!(headers.stop_err, None);
    assert_eq!(sliced.stop_err, None);

    // same network & transport headers
    match (&headers.net, &sliced.net) {
        (Some(NetHeaders::Ipv4(h, e)), Some(LaxNetSlice::Ipv4(s))) => {
            assert_eq!(h, &s.header().to_header());
            assert_eq!(e, &s.extensions().to_header());
        }
        _ => panic!("expected ipv4 in both results"),
    }
    let udp_slice = match &sliced.transport {
        Some(TransportSlice::Udp(u)) => u.clone(),
        _ => panic!("expected udp slice"),
    };
    assert_eq!(
        headers.transport,
        Some(TransportHeader::Udp(udp_slice.to_header()))
    );

    // remaining payload covers the same byte range
    assert_eq!(headers.payload.slice().as_ptr(), udp_slice.payload().as_ptr());
    assert_eq!(headers.payload.slice().len(), udp_slice.payload().len());
    assert_eq!(headers.payload.slice(), expected_payload);

    // the ip layer itself is complete (ip total length == buffer length)
    assert!(!sliced.ip_payload().unwrap().incomplete);

    match headers.payload {
        LaxPayloadSlice::Udp {
            payload: _,
            incomplete,
        } => incomplete,
        _ => panic!("expected udp payload"),
    }
}

#[test]
fn udp_length_bigger_than_ip_payload_marks_udp_payload_incomplete() {
    let payload = [1u8, 2, 3, 4];

    // from_ip
    let ip_packet = ip_packet_with_too_big_udp_len(&payload);
    {
        let headers = LaxPacketHeaders::from_ip(&ip_packet).unwrap();
        let sliced = LaxSlicedPacket::from_ip(&ip_packet).unwrap();
        let incomplete = check_agreement_and_get_incomplete(&headers, &sliced, &payload);
        // old code: false (only the ip layer was consulted), new code: true
        assert!(incomplete);
        assert_eq!(
            headers.payload,
            LaxPayloadSlice::Udp {
                payload: &payload,
                incomplete: true
            }
        );
    }

    // from_ether_type
    {
        let headers = LaxPacketHeaders::from_ether_type(ether_type::IPV4, &ip_packet);
        let sliced = LaxSlicedPacket::from_ether_type(ether_type::IPV4, &ip_packet);
        assert!(check_agreement_and_get_incomplete(
            &headers, &sliced, &payload
        ));
    }

    // from_ethernet
    {
        let mut eth_packet = Ethernet2Header {
            source: [1, 2, 3, 4, 5, 6],
            destination: [7, 8, 9, 10, 11, 12],
            ether_type: ether_type::IPV4,
        }
        .to_bytes()
        .to_vec();
        eth_packet.extend_from_slice(&ip_packet);
        let headers = LaxPacketHeaders::from_ethernet(&eth_packet).unwrap();
        let sliced = LaxSlicedPacket::from_ethernet(&eth_packet).unwrap();
        assert!(check_agreement_and_get_incomplete(
            &headers, &sliced, &payload
        ));
    }

    // control: a consistent udp length is still reported as complete
    // (same result with and without the change)
    {
        let builder = PacketBuilder::ipv4([192, 168, 1, 1], [192, 168, 1, 2], 20).udp(21, 1234);
        let mut packet = Vec::with_capacity(builder.size(payload.len()));
        builder.write(&mut packet, &payload).unwrap();
        let headers = LaxPacketHeaders::from_ip(&packet).unwrap();
        let sliced = LaxSlicedPacket::from_ip(&packet).unwrap();
        assert!(!check_agreement_and_get_incomplete(
            &headers, &sliced, &payload
        ));
    }
}
