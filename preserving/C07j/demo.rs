//! Demo for seed C07j.
//!
//! `Ipv6RawExtHeader::read_limited` (reached through `Ipv6Extensions::read_limited`
//! and `IpHeaders::read`) now reads the 8 bytes every raw IPv6 extension header
//! has (RFC 8200: "Hdr Ext Len" does not count the first 8 octets) in ONE call
//! instead of first 2 and then `6 + hdr_ext_len*8` bytes.
//!
//! If the length limit in front of the extension header (the IPv6 payload
//! length) leaves fewer than 8 bytes, the length error therefore names
//! `required_len: 8` (exactly what `Ipv6RawExtHeaderSlice::from_slice` and
//! `IpHeaders::from_slice` have always reported for the same bytes) instead of
//! `2` (limit 0..=1) or `8 + hdr_ext_len*8` (limit 2..=7).
//!
//! Layer, offset, `len`, length source and `required_len > len` are the same
//! as before; only WHICH true lower bound of the header length is named differs.

use etherparse::{err::Layer, err::LenError, io::LimitedReader, *};
use std::io::Cursor;

/// IPv6 header (next header = hop-by-hop) with the given payload length,
/// followed by a hop-by-hop header of 16 bytes ("hdr ext len" = 1) and
/// some trailing bytes, so that the reader itself never runs dry.
fn packet(payload_length: u16) -> Vec<u8> {
    let ip = Ipv6Header {
        traffic_class: 0,
        flow_label: Default::default(),
        payload_length,
        next_header: IpNumber::IPV6_HEADER_HOP_BY_HOP,
        hop_limit: 4,
        source: [1; 16],
        destination: [2; 16],
    };
    let mut bytes = Vec::new();
    bytes.extend_from_slice(&ip.to_bytes());
    // hop by hop header: next header UDP, hdr ext len = 1 => 16 bytes
    bytes.push(IpNumber::UDP.0);
    bytes.push(1);
    bytes.extend_from_slice(&[0u8; 14]);
    // trailing bytes behind the area the payload length covers
    bytes.extend_from_slice(&[0u8; 32]);
    bytes
}

#[test]
fn ip_headers_read_names_min_ext_header_len() {
    // payload length 4: "next header" & "hdr ext len" are readable, the
    // rest of the extension header is cut off by the payload length.
    // unchanged code: required_len == 16 (2 + 6 + 1*8)
    // changed code:   required_len == 8  (Ipv6RawExtHeader::MIN_LEN)
    for payload_length in 0..8u16 {
        let bytes = packet(payload_length);
        let read_err = IpHeaders::read(&mut Cursor::new(&bytes[..]))
            .unwrap_err()
            .len()
            .unwrap();

        // what the property fixes (same before and after the change)
        assert_eq!(read_err.layer, Layer::Ipv6ExtHeader);
        assert_eq!(read_err.layer_start_offset, Ipv6Header::LEN);
        assert_eq!(read_err.len, usize::from(payload_length));
        assert_eq!(read_err.len_source, LenSource::Ipv6HeaderPayloadLen);
        assert!(read_err.required_len > read_err.len);

        // what the change alters: the required length that is named
        // (old: 2 for payload_length 0..=1, 16 for payload_length 2..=7)
        assert_eq!(read_err.required_len, Ipv6RawExtHeader::MIN_LEN);

        // ... which is now identical to the error of the slice based entry point
        // (a payload length of 0 is skipped, as the slice functions take 0 as
        // "length unknown, use the slice length" and report no error at all)
        if payload_length > 0 {
            let slice_err = match IpHeaders::from_slice(&bytes).unwrap_err() {
                err::ip::HeadersSliceError::Len(err) => err,
                other => panic!("unexpected error {other:?}"),
            };
            assert_eq!(read_err, slice_err);
        }
    }
}

#[test]
fn raw_ext_header_read_limited_direct() {
    // limit of 1 byte in front of a (complete) 8 byte extension header
    // located at offset 14 + 40 of some outer buffer
    let data = [IpNumber::UDP.0, 0, 0, 0, 0, 0, 0, 0];
    let mut reader = LimitedReader::new(
        Cursor::new(&data[..]),
        1,
        LenSource::Ipv6HeaderPayloadLen,
        14 + 40,
        Layer::Ipv6Header,
    );
    assert_eq!(
        Ipv6RawExtHeader::read_limited(&mut reader)
            .unwrap_err()
            .len()
            .unwrap(),
        LenError {
            // unchanged code: 2
            required_len: 8,
            len: 1,
            len_source: LenSource::Ipv6HeaderPayloadLen,
            layer: Layer::Ipv6ExtHeader,
            layer_start_offset: 14 + 40,
        }
    );
}
