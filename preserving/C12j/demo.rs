//! Demo for the seeded change C12j:
//!
//! `Ipv6Extensions::write` (and everything built on it, e.g. `IpHeaders::write`)
//! now validates the `next_header` chain BEFORE the first byte is handed to the
//! writer. A chain that can not be serialised is still rejected with exactly the
//! same `ExtsWalkError` as before (and as `Ipv6Extensions::next_header` reports),
//! but the writer no longer receives the headers that precede the fault.
//!
//! Unchanged code: the headers that can be reached are written first and the
//! error is only detected afterwards (a partial chain is left in the writer).

use etherparse::err::ipv6_exts::ExtsWalkError;
use etherparse::*;

/// hop-by-hop (linked to UDP) + auth header that nobody references.
fn inconsistent_exts() -> Ipv6Extensions {
    Ipv6Extensions {
        hop_by_hop_options: Some(Ipv6RawExtHeader::new_raw(ip_number::UDP, &[0; 6]).unwrap()),
        auth: Some(IpAuthHeader::new(ip_number::UDP, 1, 2, &[]).unwrap()),
        ..Default::default()
    }
}

#[test]
fn nothing_is_written_for_an_unserialisable_chain() {
    let exts = inconsistent_exts();
    let expected = ExtsWalkError::ExtNotReferenced {
        missing_ext: ip_number::AUTH,
    };

    // walking fails ...
    assert_eq!(
        exts.next_header(ip_number::IPV6_HOP_BY_HOP),
        Err(expected.clone())
    );

    // ... and so does writing, with the same error (old & new code agree on this)
    let mut buffer = Vec::new();
    let err = exts
        .write(&mut buffer, ip_number::IPV6_HOP_BY_HOP)
        .unwrap_err();
    assert_eq!(err.content(), Some(&expected));

    // new: the writer was not touched
    // old: the 8 bytes of the hop-by-hop header were already written
    assert_eq!(buffer.len(), 0);
}

#[test]
fn ip_headers_write_stops_after_the_ipv6_header() {
    let exts = inconsistent_exts();
    let headers = IpHeaders::Ipv6(
        Ipv6Header {
            next_header: ip_number::IPV6_HOP_BY_HOP,
            ..Default::default()
        },
        exts,
    );
    let mut buffer = Vec::new();
    assert!(headers.write(&mut buffer).is_err());

    // new: only the fixed IPv6 header was written
    // old: IPv6 header + hop-by-hop header (48 bytes)
    assert_eq!(buffer.len(), Ipv6Header::LEN);
}

#[test]
fn misplaced_hop_by_hop_is_rejected_before_writing() {
    // destination options -> hop by hop (misplaced, not at start)
    let exts = Ipv6Extensions {
        hop_by_hop_options: Some(Ipv6RawExtHeader::new_raw(ip_number::UDP, &[0; 6]).unwrap()),
        destination_options: Some(
            Ipv6RawExtHeader::new_raw(ip_number::IPV6_HOP_BY_HOP, &[0; 6]).unwrap(),
        ),
        ..Default::default()
    };
    assert_eq!(
        exts.next_header(ip_number::IPV6_DEST_OPTIONS),
        Err(ExtsWalkError::HopByHopNotAtStart)
    );

    let mut buffer = Vec::new();
    let err = exts
        .write(&mut buffer, ip_number::IPV6_DEST_OPTIONS)
        .unwrap_err();
    assert_eq!(err.content(), Some(&ExtsWalkError::HopByHopNotAtStart));

    // new: nothing written; old: the destination options header (8 bytes)
    assert_eq!(buffer.len(), 0);
}
