// Demo for seed C13j: `TcpOptionsIterator` now implements `Iterator::size_hint`.
//
// Unchanged code: the default `size_hint` of the `Iterator` trait is used,
// which always answers `(0, None)` ("anything between nothing and infinitely
// many items").
//
// Changed code: the iterator answers with true bounds derived from the not
// yet processed bytes: at most one item per remaining byte, at least one item
// if the remaining area is non-empty and does not start with END, and exactly
// zero items for an empty area / an area starting with END.
//
// The sequence of items returned by `next()` (elements, errors, exhaustion)
// and `rest()` are exactly the same as before.

use etherparse::{tcp_option::*, TcpOptionElement::*, TcpOptionReadError, TcpOptionsIterator};

#[test]
fn size_hint_is_bounded_by_the_remaining_bytes() {
    // [NOOP, NOOP, WINDOW_SCALE(3 bytes), END, padding...]
    let area = [
        KIND_NOOP,
        KIND_NOOP,
        KIND_WINDOW_SCALE,
        LEN_WINDOW_SCALE,
        7,
        KIND_END,
        0,
        0,
    ];
    let mut it = TcpOptionsIterator::from_slice(&area);

    // old: (0, None)   new: (1, Some(8))
    assert_eq!(it.size_hint(), (1, Some(8)));

    assert_eq!(it.next(), Some(Ok(Noop)));
    // old: (0, None)   new: (1, Some(7))
    assert_eq!(it.size_hint(), (1, Some(7)));

    assert_eq!(it.next(), Some(Ok(Noop)));
    assert_eq!(it.next(), Some(Ok(WindowScale(7))));
    // the rest starts with END -> nothing will be returned any more
    // old: (0, None)   new: (0, Some(0))
    assert_eq!(it.rest(), &[KIND_END, 0, 0]);
    assert_eq!(it.size_hint(), (0, Some(0)));
    assert_eq!(it.next(), None);
    assert_eq!(it.size_hint(), (0, Some(0)));
}

#[test]
fn size_hint_around_an_error() {
    // unknown option kind 254
    let area = [KIND_NOOP, 254, 2, 0];
    let mut it = TcpOptionsIterator::from_slice(&area);
    assert_eq!(it.next(), Some(Ok(Noop)));
    // the error still counts as one item
    // old: (0, None)   new: (1, Some(3))
    assert_eq!(it.size_hint(), (1, Some(3)));
    assert_eq!(it.next(), Some(Err(TcpOptionReadError::UnknownId(254))));
    // exhausted after the error (same as before), now also visible in the hint
    // old: (0, None)   new: (0, Some(0))
    assert_eq!(it.size_hint(), (0, Some(0)));
    assert_eq!(it.next(), None);
    assert_eq!(it.next(), None);
}

#[test]
fn size_hint_is_a_true_bound() {
    // a few raw areas (well-formed, malformed, truncated, unknown): the hint
    // has to be a *correct* bound at every position of the iteration and has
    // to have a finite upper bound (this second part fails on the old code).
    let areas: [&[u8]; 8] = [
        &[],
        &[KIND_END],
        &[KIND_NOOP; 40],
        &[KIND_MAXIMUM_SEGMENT_SIZE, 4, 1, 2, KIND_TIMESTAMP, 10, 0, 0, 0, 1, 0, 0, 0, 2, 0, 0],
        &[KIND_SELECTIVE_ACK, 18, 0, 0, 0, 1, 0, 0, 0, 2, 0, 0, 0, 3, 0, 0, 0, 4, 1, 1],
        &[KIND_SELECTIVE_ACK, 18, 0, 0],
        &[KIND_NOOP, KIND_WINDOW_SCALE, 4, 0],
        &[KIND_SELECTIVE_ACK_PERMITTED, 2, 99, 0],
    ];
    for area in areas {
        let mut it = TcpOptionsIterator::from_slice(area);
        loop {
            let (lower, upper) = it.size_hint();
            let remaining = it.clone().count();
            let upper = upper.expect("finite upper bound");
            assert!(lower <= remaining, "{area:?}");
            assert!(remaining <= upper, "{area:?}");
            assert!(upper <= it.rest().len(), "{area:?}");
            if it.next().is_none() {
                break;
            }
        }
    }
}
