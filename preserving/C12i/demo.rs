// Seed C12i: `Ipv6Extensions::next_header` (and with it `IpHeaders::next_header`)
// no longer stops at the first fault it meets. When the walk reaches a hop-by-hop
// header that is not at the start it remembers that fault, follows the link of the
// hop-by-hop header and finishes the walk. If some header can not be reached at
// all, that header is reported (`ExtNotReferenced`); `HopByHopNotAtStart` is only
// reported if every header was reached.
//
// The chain below has TWO faults at the same time:
//   * the hop-by-hop header is referenced by the auth header (misplaced)
//   * the fragment header is referenced by nobody (no `next_header` field and
//     not the first header number is 44)
//
// unchanged code: next_header(AUTH) == Err(HopByHopNotAtStart)
// changed code:   next_header(AUTH) == Err(ExtNotReferenced{ IPV6_FRAGMENTATION_HEADER })
//
// Both answers name a fault that is really there. The chain is rejected either
// way and serialising it still fails as well (success of `write` <=> success of
// `next_header` is untouched).

use etherparse::err::ipv6_exts::ExtsWalkError;
use etherparse::*;

fn two_fault_chain() -> Ipv6Extensions {
    Ipv6Extensions {
        // only reachable via the auth header -> misplaced
        hop_by_hop_options: Some(Ipv6RawExtHeader::new_raw(IpNumber::UDP, &[0; 6]).unwrap()),
        destination_options: None,
        routing: None,
        // referenced by nothing
        fragment: Some(Ipv6FragmentHeader::new(
            IpNumber::UDP,
            IpFragOffset::ZERO,
            false,
            1234,
        )),
        // first header, links to the hop-by-hop header
        auth: Some(IpAuthHeader::new(IpNumber::IPV6_HEADER_HOP_BY_HOP, 1, 2, &[]).unwrap()),
    }
}

#[test]
fn unreferenced_header_is_reported_in_preference_to_misplaced_hop_by_hop() {
    let exts = two_fault_chain();

    // the walker now names the header that can not be reached at all
    assert_eq!(
        exts.next_header(IpNumber::AUTHENTICATION_HEADER),
        Err(ExtsWalkError::ExtNotReferenced {
            missing_ext: IpNumber::IPV6_FRAGMENTATION_HEADER
        })
    );

    // same via the IP header set
    let ip = IpHeaders::Ipv6(
        Ipv6Header {
            next_header: IpNumber::AUTHENTICATION_HEADER,
            ..Default::default()
        },
        exts.clone(),
    );
    assert_eq!(
        ip.next_header(),
        Err(err::ip_exts::ExtsWalkError::Ipv6Exts(
            ExtsWalkError::ExtNotReferenced {
                missing_ext: IpNumber::IPV6_FRAGMENTATION_HEADER
            }
        ))
    );

    // the chain is still refused by the serialiser (walk fails <=> write fails)
    let mut buf = Vec::new();
    assert!(exts
        .write(&mut buf, IpNumber::AUTHENTICATION_HEADER)
        .unwrap_err()
        .content()
        .is_some());

    // a chain whose ONLY fault is the misplaced hop-by-hop header is still
    // reported as such (the fragment header is now referenced by the hop-by-hop
    // header, so every header is reached)
    let mut only_misplaced = two_fault_chain();
    only_misplaced
        .hop_by_hop_options
        .as_mut()
        .unwrap()
        .next_header = IpNumber::IPV6_FRAGMENTATION_HEADER;
    assert_eq!(
        only_misplaced.next_header(IpNumber::AUTHENTICATION_HEADER),
        Err(ExtsWalkError::HopByHopNotAtStart)
    );
    let mut buf = Vec::new();
    assert_eq!(
        only_misplaced
            .write(&mut buf, IpNumber::AUTHENTICATION_HEADER)
            .unwrap_err()
            .content(),
        Some(&ExtsWalkError::HopByHopNotAtStart)
    );
}
