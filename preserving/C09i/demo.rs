//! Demo for seed C09i.
//!
//! `checksum::u64_16bit_word::add_slice` now sums whole 64 byte blocks of a
//! slice with "deferred carries" (RFC 1071 section 2 (C)): 32 bit words are
//! accumulated in a 64 bit value & added with one end-around carry per block.
//!
//! The RAW (unfolded) 64 bit accumulator returned for slices of 64 or more
//! bytes is therefore a different representative of the same one's-complement
//! sum. Everything the property talks about - the folded 16 bit checksum, its
//! independence of even splits, the agreement of the 32 & 64 bit helpers -
//! is unchanged. Both tests check both halves: the raw difference (fails on the
//! unchanged code) and the unchanged 16 bit results (hold on both).

use etherparse::checksum::{u32_16bit_word, u64_16bit_word, Sum16BitWords};

/// Independent RFC 1071 oracle: one's-complement sum (NOT complemented) of
/// `start` (interpreted as four native endian 16 bit words) and of the native
/// endian 16 bit words of `data` (odd length padded with a zero byte).
///
/// Returns a value in 0..=0xffff that is 0 only if everything summed is 0
/// (= what end-around carry addition produces).
fn rfc1071_sum(start: u64, data: &[u8]) -> u16 {
    let mut total: u128 = 0;
    for shift in [0u32, 16, 32, 48] {
        total += u128::from((start >> shift) as u16);
    }
    for pair in data.chunks(2) {
        let word = [pair[0], if pair.len() == 2 { pair[1] } else { 0 }];
        total += u128::from(u16::from_ne_bytes(word));
    }
    if total == 0 {
        0
    } else {
        // representative in 1..=0xffff
        (((total - 1) % 0xffff) + 1) as u16
    }
}

/// Cheap deterministic byte generator (no external crates needed).
fn pseudo_random_bytes(len: usize, seed: u64) -> Vec<u8> {
    let mut state = seed
        .wrapping_mul(0x9e37_79b9_7f4a_7c15)
        .wrapping_add(0x1234_5678_9abc_def1);
    (0..len)
        .map(|_| {
            state ^= state << 13;
            state ^= state >> 7;
            state ^= state << 17;
            (state >> 24) as u8
        })
        .collect()
}

#[test]
fn raw_u64_accumulator_differs_but_folded_checksum_is_rfc1071() {
    // (1) the behaviour difference: 64 bytes of 0xff.
    //
    // unchanged code: eight 8 byte words 0xffff_ffff_ffff_ffff added with
    //                 end-around carry               -> 0xffff_ffff_ffff_ffff
    // changed code:   sixteen 4 byte words 0xffff_ffff summed up in an u64
    //                                                -> 0x0000_000f_ffff_fff0
    let ones = [0xffu8; 64];
    let raw = u64_16bit_word::add_slice(0, &ones);
    assert_ne!(
        raw,
        u64::MAX,
        "raw accumulator is still the end-around-carry sum of the 8 byte words"
    );
    // ... but the 16 bit result is what RFC 1071 prescribes (sum 0xffff,
    // checksum 0x0000) & it is what the u32 helper returns as well
    assert_eq!(0, u64_16bit_word::ones_complement(raw));
    assert_eq!(0xffff, u64_16bit_word::ones_complement_with_no_zero(raw));
    assert_eq!(
        0,
        u32_16bit_word::ones_complement(u32_16bit_word::add_slice(0, &ones))
    );

    // (2) the property: all lengths around the block size, different
    // alignments, start values incl. ones that force carries out of 64 bits.
    let starts = [
        0u64,
        1,
        0xffff,
        0xffff_ffff,
        0xffff_ffff_0000_0000,
        0xffff_ffff_ffff_fffe,
        u64::MAX,
    ];
    for len in 0..=330usize {
        for seed in 0..4u64 {
            // seed 3 -> all 0xff (maximum carries), otherwise random
            let backing = if seed == 3 {
                vec![0xffu8; len + 1]
            } else {
                pseudo_random_bytes(len + 1, (len as u64) * 4 + seed)
            };
            // both possible alignments of the first byte
            for data in [&backing[..len], &backing[1..]] {
                for start in starts {
                    let expected = !rfc1071_sum(start, data);
                    // in one go
                    assert_eq!(
                        expected,
                        u64_16bit_word::ones_complement(u64_16bit_word::add_slice(start, data)),
                        "len={} start={:#x}",
                        len,
                        start
                    );
                }

                // 32 & 64 bit accumulators agree
                let expected = !rfc1071_sum(0, data);
                assert_eq!(
                    expected,
                    u32_16bit_word::ones_complement(u32_16bit_word::add_slice(0, data))
                );
                assert_eq!(
                    expected,
                    Sum16BitWords::new().add_slice(data).ones_complement()
                );

                // independent of a split at an even offset
                for split in (0..=len).step_by(2) {
                    let (a, b) = data.split_at(split);
                    assert_eq!(
                        expected,
                        u64_16bit_word::ones_complement(u64_16bit_word::add_slice(
                            u64_16bit_word::add_slice(0, a),
                            b
                        )),
                        "len={} split={}",
                        len,
                        split
                    );
                }
            }
        }
    }
}

#[test]
fn accumulator_objects_of_different_splits_compare_unequal_but_fold_equal() {
    // Only meaningful where Sum16BitWords is backed by the u64 helpers.
    if cfg!(not(target_pointer_width = "64")) {
        panic!("demo targets 64 bit platforms");
    }

    let ones = [0xffu8; 64];
    let in_one_go = Sum16BitWords::new().add_slice(&ones);
    let in_two_steps = Sum16BitWords::new()
        .add_slice(&ones[..32])
        .add_slice(&ones[32..]);

    // The derived `PartialEq` compares the raw accumulator. It never was a
    // "same checksum" relation: already in the unchanged code the 4 bytes
    // [1, 0, 1, 0] added in one go (raw 0x0001_0001 on little endian) and
    // added as 2 + 2 bytes (raw 0x2) compare unequal (holds with & without
    // the change) ...
    assert_ne!(
        Sum16BitWords::new().add_slice(&[1, 0, 1, 0]),
        Sum16BitWords::new().add_slice(&[1, 0]).add_slice(&[1, 0])
    );
    // ... with the change this now also is the case for this input
    // (unchanged code: equal).
    assert_ne!(in_one_go, in_two_steps);

    // what the property fixes, the 16 bit results, are the same
    assert_eq!(in_one_go.ones_complement(), in_two_steps.ones_complement());
    assert_eq!(
        in_one_go.to_ones_complement_with_no_zero(),
        in_two_steps.to_ones_complement_with_no_zero()
    );
    assert_eq!(!rfc1071_sum(0, &ones), in_one_go.ones_complement());
}
