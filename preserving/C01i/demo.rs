//! Demo for seed C01i.
//!
//! A TCP option of a fixed-size kind (MSS, window scale, timestamp) that is
//! BOTH announcing a wrong size in its length byte AND cut off by the end of
//! the options area has two faults at once. The unchanged code reports the
//! truncation (`UnexpectedEndOfSlice`), the changed code validates the length
//! byte first (as the selective-ack branch always did) and reports
//! `UnexpectedSize`. Nothing about memory accesses changes: the unchecked
//! reads still only happen after both checks passed.

use etherparse::{
    tcp_option::*, TcpHeaderSlice, TcpOptionElement, TcpOptionReadError, TcpOptionsIterator,
    TcpSlice,
};

/// 20 byte TCP base header with data offset 6 (= 4 bytes of options),
/// followed by the given options and a 2 byte payload.
fn tcp_bytes(options: [u8; 4]) -> [u8; 26] {
    let mut b = [0u8; 26];
    b[0..2].copy_from_slice(&1234u16.to_be_bytes()); // source port
    b[2..4].copy_from_slice(&80u16.to_be_bytes()); // destination port
    b[12] = 6 << 4; // data offset = 6 * 4 = 24 bytes
    b[20..24].copy_from_slice(&options);
    b[24] = 0xAA;
    b[25] = 0xBB;
    b
}

#[test]
fn wrong_size_and_truncated_reports_wrong_size() {
    // NOOP, then an MSS option (always 4 bytes long) that announces a
    // length of 3 and of which only 3 bytes fit into the options area.
    let bytes = tcp_bytes([KIND_NOOP, KIND_MAXIMUM_SEGMENT_SIZE, 3, 0]);

    let expected = [
        Ok(TcpOptionElement::Noop),
        // unchanged code:
        // Err(UnexpectedEndOfSlice { option_id: 2, expected_len: 4, actual_len: 3 })
        Err(TcpOptionReadError::UnexpectedSize {
            option_id: KIND_MAXIMUM_SEGMENT_SIZE,
            size: 3,
        }),
    ];

    // via the header slice decoder
    let header = TcpHeaderSlice::from_slice(&bytes).unwrap();
    assert_eq!(&bytes[20..24], header.options());
    let mut it = header.options_iterator();
    assert_eq!(Some(expected[0].clone()), it.next());
    assert_eq!(Some(expected[1].clone()), it.next());
    // the iterator still parks at the end of the options (inside the input)
    assert_eq!(None, it.next());
    assert!(it.rest().is_empty());
    assert_eq!(it.rest().as_ptr(), bytes[24..].as_ptr());

    // via the header + payload decoder
    let tcp = TcpSlice::from_slice(&bytes).unwrap();
    assert_eq!(&[0xAA, 0xBB], tcp.payload());
    let got: Vec<_> = tcp.options_iterator().collect();
    assert_eq!(&expected[..], &got[..]);
}

#[test]
fn other_fixed_size_kinds_and_controls() {
    // controls first: inputs with a single fault (and no fault) behave
    // exactly as before
    single_fault_cases_are_unchanged();

    // window scale (3 bytes), length byte says 2, only 2 bytes present
    assert_eq!(
        Some(Err(TcpOptionReadError::UnexpectedSize {
            option_id: KIND_WINDOW_SCALE,
            size: 2
        })),
        TcpOptionsIterator::from_slice(&[KIND_WINDOW_SCALE, 2]).next()
    );
    // timestamp (10 bytes), length byte says 8, only 8 bytes present
    assert_eq!(
        Some(Err(TcpOptionReadError::UnexpectedSize {
            option_id: KIND_TIMESTAMP,
            size: 8
        })),
        TcpOptionsIterator::from_slice(&[KIND_TIMESTAMP, 8, 0, 0, 0, 0, 0, 0]).next()
    );
}

fn single_fault_cases_are_unchanged() {
    // correct length byte, but truncated: still UnexpectedEndOfSlice
    assert_eq!(
        Some(Err(TcpOptionReadError::UnexpectedEndOfSlice {
            option_id: KIND_MAXIMUM_SEGMENT_SIZE,
            expected_len: 4,
            actual_len: 3
        })),
        TcpOptionsIterator::from_slice(&[KIND_MAXIMUM_SEGMENT_SIZE, 4, 0]).next()
    );
    // length byte missing altogether: still UnexpectedEndOfSlice
    assert_eq!(
        Some(Err(TcpOptionReadError::UnexpectedEndOfSlice {
            option_id: KIND_TIMESTAMP,
            expected_len: 10,
            actual_len: 1
        })),
        TcpOptionsIterator::from_slice(&[KIND_TIMESTAMP]).next()
    );
    // wrong length byte, complete data: still UnexpectedSize
    assert_eq!(
        Some(Err(TcpOptionReadError::UnexpectedSize {
            option_id: KIND_MAXIMUM_SEGMENT_SIZE,
            size: 3
        })),
        TcpOptionsIterator::from_slice(&[KIND_MAXIMUM_SEGMENT_SIZE, 3, 0, 0]).next()
    );
    // well-formed option still decodes
    assert_eq!(
        Some(Ok(TcpOptionElement::MaximumSegmentSize(0x0102))),
        TcpOptionsIterator::from_slice(&[KIND_MAXIMUM_SEGMENT_SIZE, 4, 1, 2]).next()
    );
}
