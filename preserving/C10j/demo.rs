//! Demo for seed C10j: `PacketBuilder` no longer emits a partial packet when
//! the configuration can not be encoded.
//!
//! Unchanged code: the link & vlan headers (and for the ICMPv6-in-IPv4 error
//! also the IPv4 header) have already been handed to the writer / appended to
//! the `Vec` / copied into the slice when the error is detected.
//!
//! Changed code: all derived fields (lengths, checksums) are determined
//! before the first byte is written, so the output sink is untouched when
//! `PayloadLen` or `Icmpv6InIpv4` is returned. The returned errors themselves
//! and all successfully written packets are byte for byte the same as before.

use etherparse::err::packet::{BuildSliceWriteError, BuildVecWriteError, BuildWriteError};
use etherparse::err::{ValueTooBigError, ValueType};
use etherparse::*;

/// `std::io::Write` that records how often it was called & what it received.
struct Recorder {
    calls: usize,
    data: Vec<u8>,
}

impl std::io::Write for Recorder {
    fn write(&mut self, buf: &[u8]) -> std::io::Result<usize> {
        self.calls += 1;
        self.data.extend_from_slice(buf);
        Ok(buf.len())
    }
    fn flush(&mut self) -> std::io::Result<()> {
        Ok(())
    }
}

fn eth_vlan_ipv4_udp() -> PacketBuilderStep<UdpHeader> {
    PacketBuilder::ethernet2([1, 2, 3, 4, 5, 6], [7, 8, 9, 10, 11, 12])
        .single_vlan(VlanId::try_new(0x123).unwrap())
        .ipv4([192, 168, 1, 1], [192, 168, 1, 2], 20)
        .udp(21, 1234)
}

/// One byte more then the IPv4 total length field can represent.
fn too_big_udp_payload() -> Vec<u8> {
    vec![0u8; usize::from(u16::MAX) - Ipv4Header::MIN_LEN - UdpHeader::LEN + 1]
}

fn expected_len_error() -> ValueTooBigError<usize> {
    ValueTooBigError {
        actual: usize::from(u16::MAX) - Ipv4Header::MIN_LEN + 1,
        max_allowed: usize::from(u16::MAX) - Ipv4Header::MIN_LEN,
        value_type: ValueType::Ipv4PayloadLength,
    }
}

#[test]
fn payload_too_big_leaves_vec_untouched() {
    let payload = too_big_udp_payload();
    let mut buffer = vec![0xaa, 0xbb, 0xcc];
    let err = eth_vlan_ipv4_udp()
        .write_to_vec(&mut buffer, &payload)
        .unwrap_err();
    // same error as before
    assert_eq!(err, BuildVecWriteError::PayloadLen(expected_len_error()));
    // old: [0xaa, 0xbb, 0xcc] + ethernet II header + vlan header (3 + 14 + 4 bytes)
    // new: untouched
    assert_eq!(buffer, [0xaa, 0xbb, 0xcc]);
}

#[test]
fn payload_too_big_leaves_slice_untouched() {
    let payload = too_big_udp_payload();
    let builder = eth_vlan_ipv4_udp();
    // big enough so that no space error is triggered
    let mut buffer = vec![0x55u8; builder.size(payload.len())];
    let err = builder.write_to_slice(&mut buffer, &payload).unwrap_err();
    // same error as before
    assert_eq!(err, BuildSliceWriteError::PayloadLen(expected_len_error()));
    // old: the first 18 bytes contain the ethernet II & vlan header
    // new: untouched
    assert!(buffer.iter().all(|b| *b == 0x55));
}

#[test]
fn payload_too_big_writes_nothing_to_io_writer() {
    let payload = too_big_udp_payload();
    let mut writer = Recorder {
        calls: 0,
        data: Vec::new(),
    };
    let err = eth_vlan_ipv4_udp()
        .write(&mut writer, &payload)
        .unwrap_err();
    assert!(matches!(err, BuildWriteError::PayloadLen(_)));
    // old: 2 calls & 18 bytes, new: the writer is never called
    assert_eq!(writer.calls, 0);
    assert!(writer.data.is_empty());
}

#[test]
fn icmpv6_in_ipv4_leaves_vec_untouched() {
    let mut buffer = Vec::new();
    let err = PacketBuilder::ethernet2([1, 2, 3, 4, 5, 6], [7, 8, 9, 10, 11, 12])
        .ipv4([192, 168, 1, 1], [192, 168, 1, 2], 20)
        .icmpv6_echo_request(1, 2)
        .write_to_vec(&mut buffer, &[1, 2, 3, 4])
        .unwrap_err();
    // same error as before
    assert_eq!(err, BuildVecWriteError::Icmpv6InIpv4);
    // old: ethernet II header + IPv4 header (14 + 20 bytes) have been appended
    // new: nothing has been appended
    assert!(buffer.is_empty());
}

/// Successful writes are not affected (same bytes through all three paths,
/// `size` bytes long). Passes with & without the change.
#[test]
fn success_unchanged() {
    let payload = [1u8, 2, 3, 4, 5];
    let size = eth_vlan_ipv4_udp().size(payload.len());

    let mut via_write = Vec::new();
    eth_vlan_ipv4_udp().write(&mut via_write, &payload).unwrap();

    let mut via_vec = Vec::new();
    eth_vlan_ipv4_udp()
        .write_to_vec(&mut via_vec, &payload)
        .unwrap();

    let mut via_slice = vec![0u8; size + 3];
    let written = eth_vlan_ipv4_udp()
        .write_to_slice(&mut via_slice, &payload)
        .unwrap();

    assert_eq!(size, via_write.len());
    assert_eq!(size, written);
    assert_eq!(via_write, via_vec);
    assert_eq!(via_write, &via_slice[..written]);

    let parsed = PacketHeaders::from_ethernet_slice(&via_write).unwrap();
    assert_eq!(parsed.payload.slice(), &payload);
}
