//! Demo for seed C08l.
//!
//! Changed behaviour: `IgmpHeader::from_slice` no longer silently drops a
//! non zero "unused"/"reserved" second byte of IGMP membership report &
//! leave group messages (types 0x12, 0x16, 0x17, 0x22). Such a header is now
//! returned as `IgmpType::Unknown` (raw bytes kept), so re-encoding it
//! reproduces the received bytes exactly and `calc_checksum` still covers the
//! byte. Before the change the structured variant was returned and the byte was
//! normalised to zero when re-encoding.
//!
//! Headers with a zero second byte (everything `to_bytes` of a structured
//! variant can produce) decode exactly as before.

use etherparse::{igmp, IgmpHeader, IgmpType};

/// (type id, name) of all IGMP messages whose second byte is unused/reserved.
const TYPES_WITH_UNUSED_BYTE: [u8; 4] = [
    igmp::IGMPV1_TYPE_MEMBERSHIP_REPORT, // 0x12
    igmp::IGMPV2_TYPE_MEMBERSHIP_REPORT, // 0x16
    igmp::IGMPV2_TYPE_LEAVE_GROUP,       // 0x17
    igmp::IGMPV3_TYPE_MEMBERSHIP_REPORT, // 0x22
];

/// PASSES with the change, FAILS without it.
#[test]
fn non_zero_unused_byte_is_kept_as_unknown() {
    for type_u8 in TYPES_WITH_UNUSED_BYTE {
        // type, unused byte (non zero), checksum, bytes 4..8, + 3 bytes payload
        let bytes = [type_u8, 0x7f, 0x12, 0x34, 224, 0, 0, 251, 1, 2, 3];

        let (header, rest) = IgmpHeader::from_slice(&bytes).unwrap();

        // new: raw representation that keeps the second byte
        // (old: MembershipReportV1/MembershipReportV2/LeaveGroup/MembershipReportV3)
        assert_eq!(
            header,
            IgmpHeader {
                igmp_type: IgmpType::Unknown(igmp::UnknownHeader {
                    igmp_type: type_u8,
                    raw_byte_1: 0x7f,
                    raw_bytes_4_7: [224, 0, 0, 251],
                }),
                checksum: 0x1234,
            }
        );
        // same 8 bytes consumed as before
        assert_eq!(rest, &[1, 2, 3]);

        // new: re-encoding reproduces the received header bit by bit
        // (old: second byte was re-encoded as 0)
        assert_eq!(header.to_bytes().as_slice(), &bytes[..8]);

        // decoding the re-encoded bytes yields the same value again
        let reencoded = header.to_bytes();
        let (again, rest_again) = IgmpHeader::from_slice(&reencoded).unwrap();
        assert_eq!(again, header);
        assert!(rest_again.is_empty());
    }
}

/// Passes with and without the change (documents what did NOT change):
/// a zero second byte still gives the structured variants and every
/// structured value still survives encode -> decode.
#[test]
fn zero_unused_byte_is_unchanged() {
    let group = [224, 0, 0, 251];
    let cases = [
        IgmpType::MembershipReportV1(igmp::MembershipReportV1Type {
            group_address: group.into(),
        }),
        IgmpType::MembershipReportV2(igmp::MembershipReportV2Type {
            group_address: group.into(),
        }),
        IgmpType::LeaveGroup(igmp::LeaveGroupType {
            group_address: group.into(),
        }),
        IgmpType::MembershipReportV3(igmp::MembershipReportV3Header {
            flags: [0xff, 0xff],
            num_of_records: 0xffff,
        }),
    ];
    for igmp_type in cases {
        let header = IgmpHeader {
            igmp_type,
            checksum: 0xffff,
        };
        let bytes = header.to_bytes();
        assert_eq!(bytes.len(), header.header_len());
        assert_eq!(bytes[1], 0);
        let (decoded, rest) = IgmpHeader::from_slice(&bytes).unwrap();
        assert_eq!(decoded, header);
        assert!(rest.is_empty());
    }
}
