//! Demo for the C05 seed: `LaxPacketHeaders` now also marks the *UDP* payload
//! (`LaxPayloadSlice::Udp { incomplete, .. }`) as incomplete when the length
//! field of the UDP header promises more bytes than are present (before only
//! the `incomplete` flag of the IP layer was copied into it).
//!
//! Everything the property C05 talks about (layers, stop error, the link- and
//! network-layer payloads with their `incomplete`/`len_source`) is unchanged.

use etherparse::*;

/// IPv4 + UDP packet with 4 payload bytes. The IPv4 `total_len` is consistent
/// with the slice, but the UDP length field claims 100 payload bytes.
fn packet_with_oversized_udp_len(payload: &[u8]) -> Vec<u8> {
    let builder = PacketBuilder::ipv4([192, 168, 1, 1], [192, 168, 1, 2], 20).udp(21, 1234);
    let mut packet = Vec::with_capacity(builder.size(payload.len()));
    builder.write(&mut packet, payload).unwrap();

    // overwrite the UDP length field (bytes 4..6 of the UDP header which
    // starts directly after the 20 byte IPv4 header)
    let claimed_len = (UdpHeader::LEN as u16 + 100).to_be_bytes();
    packet[Ipv4Header::MIN_LEN + 4] = claimed_len[0];
    packet[Ipv4Header::MIN_LEN + 5] = claimed_len[1];
    packet
}

#[test]
fn udp_len_field_bigger_then_data_marks_udp_payload_incomplete() {
    let payload = [1u8, 2, 3, 4];
    let packet = packet_with_oversized_udp_len(&payload);

    // strict parsing rejects the packet (fault in the UDP layer, i.e.
    // after the first header)
    assert!(PacketHeaders::from_ip_slice(&packet).is_err());

    // the network-layer payload is NOT incomplete (the IPv4 total_len
    // is consistent with the slice). Same with & without the change.
    {
        let (ip, stop_err) = LaxIpSlice::from_slice(&packet).unwrap();
        assert_eq!(stop_err, None);
        assert_eq!(ip.payload().incomplete, false);
        assert_eq!(ip.payload().len_source, LenSource::Ipv4HeaderTotalLen);
    }

    // lax headers: same layers, no stop error and the same payload bytes
    // (data up to the slice end) with & without the change.
    let lax = LaxPacketHeaders::from_ip(&packet).unwrap();
    assert_eq!(lax.stop_err, None);
    assert!(matches!(lax.net, Some(NetHeaders::Ipv4(_, _))));
    match &lax.transport {
        Some(TransportHeader::Udp(udp)) => {
            assert_eq!(udp.source_port, 21);
            assert_eq!(udp.destination_port, 1234);
            assert_eq!(udp.length, UdpHeader::LEN as u16 + 100);
        }
        other => panic!("unexpected transport {other:?}"),
    }
    assert_eq!(lax.payload.slice(), &payload);

    // THE DIFFERENCE: the UDP payload is now flagged as cut off, as the
    // UDP length field promised 100 bytes but only 4 are there.
    //
    // unchanged code: LaxPayloadSlice::Udp { payload: [1,2,3,4], incomplete: false }
    // changed code:   LaxPayloadSlice::Udp { payload: [1,2,3,4], incomplete: true }
    assert_eq!(
        lax.payload,
        LaxPayloadSlice::Udp {
            payload: &payload,
            incomplete: true
        }
    );

    // same via the ethernet entry point
    let mut eth = Ethernet2Header {
        source: [1, 2, 3, 4, 5, 6],
        destination: [7, 8, 9, 10, 11, 12],
        ether_type: EtherType::IPV4,
    }
    .to_bytes()
    .to_vec();
    eth.extend_from_slice(&packet);
    let lax = LaxPacketHeaders::from_ethernet(&eth).unwrap();
    assert_eq!(lax.stop_err, None);
    assert_eq!(
        lax.payload,
        LaxPayloadSlice::Udp {
            payload: &payload,
            incomplete: true
        }
    );
}

#[test]
fn consistent_udp_len_is_still_complete() {
    // control (passes with & without the change would not document anything,
    // so it is combined with the changed behaviour): a packet accepted by the
    // strict parser is never marked incomplete, a packet with an oversized UDP
    // length is.
    let payload = [1u8, 2, 3, 4];
    let builder = PacketBuilder::ipv4([192, 168, 1, 1], [192, 168, 1, 2], 20).udp(21, 1234);
    let mut ok_packet = Vec::with_capacity(builder.size(payload.len()));
    builder.write(&mut ok_packet, &payload).unwrap();

    let strict = PacketHeaders::from_ip_slice(&ok_packet).unwrap();
    let lax = LaxPacketHeaders::from_ip(&ok_packet).unwrap();
    assert_eq!(lax.stop_err, None);
    assert_eq!(lax.net, strict.net);
    assert_eq!(lax.transport, strict.transport);
    assert_eq!(
        lax.payload,
        LaxPayloadSlice::Udp {
            payload: &payload,
            incomplete: false
        }
    );

    // zero & too small UDP length values still fall back to the slice
    // length without any incomplete flag (nothing more was promised)
    for len in 0..UdpHeader::LEN as u16 {
        let mut p = ok_packet.clone();
        let be = len.to_be_bytes();
        p[Ipv4Header::MIN_LEN + 4] = be[0];
        p[Ipv4Header::MIN_LEN + 5] = be[1];
        let lax = LaxPacketHeaders::from_ip(&p).unwrap();
        assert_eq!(
            lax.payload,
            LaxPayloadSlice::Udp {
                payload: &payload,
                incomplete: false
            }
        );
    }

    // oversized UDP length -> incomplete (fails without the change)
    let bad = packet_with_oversized_udp_len(&payload);
    let lax = LaxPacketHeaders::from_ip(&bad).unwrap();
    assert_eq!(
        lax.payload,
        LaxPayloadSlice::Udp {
            payload: &payload,
            incomplete: true
        }
    );
}
