//! Demo for the behaviour change C03j.
//!
//! A VLAN (or MACsec) header that is cut short NOT by the end of the buffer but
//! by the "short length" field of an enclosing MACsec SecTag still makes strict
//! slicing fail with a length error (same layer, same required length, same
//! available length, same offset) - but the error now names the MACsec short
//! length as the source of the limiting length (`LenSource::MacsecShortLength`)
//! where the unchanged code says `LenSource::Slice`.
//!
//! The tests pass with the change and fail without it.

use etherparse::err::{packet::SliceError, Layer, LenError};
use etherparse::*;

/// SecTag (no SCI, unmodified payload, next ether type `next`) whose short
/// length announces `payload_len` bytes after the ether type.
fn sectag(next: EtherType, payload_len: u8) -> Vec<u8> {
    let h = MacsecHeader {
        ptype: MacsecPType::Unmodified(next),
        endstation_id: false,
        scb: false,
        an: MacsecAn::ZERO,
        // for unmodified payloads the short length counts the ether type as well
        short_len: MacsecShortLen::try_from_u8(payload_len + 2).unwrap(),
        packet_nr: 1,
        sci: None,
    };
    assert_eq!(8, h.header_len());
    h.to_bytes().to_vec()
}

#[test]
fn vlan_header_cut_short_by_macsec_short_len() {
    // Ethernet II | SecTag(short length => 2 bytes of payload) | 2 of the 4 VLAN
    // header bytes | 10 more bytes that are in the buffer but lie behind the
    // MACsec short length (e.g. the ICV).
    let mut data = Ethernet2Header {
        source: [1, 2, 3, 4, 5, 6],
        destination: [7, 8, 9, 10, 11, 12],
        ether_type: EtherType::MACSEC,
    }
    .to_bytes()
    .to_vec();
    data.extend_from_slice(&sectag(EtherType::VLAN_TAGGED_FRAME, 2));
    data.extend_from_slice(&[0x00, 0x01]); // first half of a VLAN header
    data.extend_from_slice(&[0u8; 10]); // behind the short length

    control_unchanged_when_the_buffer_itself_ends();

    let err = SlicedPacket::from_ethernet(&data).unwrap_err();

    // it is a length error of the VLAN header in both versions ...
    let len_err = match &err {
        SliceError::Len(l) => l.clone(),
        other => panic!("unexpected error {:?}", other),
    };
    assert_eq!(Layer::VlanHeader, len_err.layer);
    assert_eq!(4, len_err.required_len);
    assert_eq!(2, len_err.len);
    assert_eq!(14 + 8, len_err.layer_start_offset);

    // ... but only the changed code names the length field that really
    // limited the data (unchanged code: LenSource::Slice).
    assert_eq!(
        err,
        SliceError::Len(LenError {
            required_len: 4,
            len: 2,
            len_source: LenSource::MacsecShortLength,
            layer: Layer::VlanHeader,
            layer_start_offset: 14 + 8,
        })
    );
}

#[test]
fn inner_macsec_header_cut_short_by_outer_macsec_short_len() {
    // SecTag(short length => 3 bytes of payload) | 3 of the 6 bytes an inner
    // SecTag needs at least | bytes behind the short length
    let mut data = sectag(EtherType::MACSEC, 3);
    data.extend_from_slice(&[0, 0, 0]);
    data.extend_from_slice(&[0u8; 20]);

    assert_eq!(
        SlicedPacket::from_ether_type(EtherType::MACSEC, &data).unwrap_err(),
        SliceError::Len(LenError {
            required_len: 6,
            len: 3,
            // unchanged code: LenSource::Slice
            len_source: LenSource::MacsecShortLength,
            layer: Layer::MacsecHeader,
            layer_start_offset: 8,
        })
    );
}

/// Control (same result with and without the change, called from the first
/// test): same stacking, short length 0 (= unknown): the buffer end limits
/// the data and the error keeps naming the slice.
fn control_unchanged_when_the_buffer_itself_ends() {
    let h = MacsecHeader {
        ptype: MacsecPType::Unmodified(EtherType::VLAN_TAGGED_FRAME),
        endstation_id: false,
        scb: false,
        an: MacsecAn::ZERO,
        short_len: MacsecShortLen::ZERO,
        packet_nr: 1,
        sci: None,
    };
    let mut data = h.to_bytes().to_vec();
    data.extend_from_slice(&[0x00, 0x01]);
    assert_eq!(
        SlicedPacket::from_ether_type(EtherType::MACSEC, &data).unwrap_err(),
        SliceError::Len(LenError {
            required_len: 4,
            len: 2,
            len_source: LenSource::Slice,
            layer: Layer::VlanHeader,
            layer_start_offset: 8,
        })
    );
}
