//! Demo for seed C17l.
//!
//! `Icmpv6PayloadSlice::from_slice` / `Icmpv6Type::payload_slice` take an
//! already decoded `Icmpv6Type` VALUE plus the payload bytes. The decoders of
//! the crate (`Icmpv6Slice::icmp_type`, `Icmpv6Header::from_slice`, ...) only
//! ever produce `Icmpv6Type::Unknown` for type/code combinations that have NO
//! typed variant. A hand-built `Unknown { type_u8: 135, code_u8: 0, .. }`
//! (135/0 = Neighbor Solicitation, which has a typed variant) can therefore
//! not be the result of decoding any byte string.
//!
//! * unchanged code: such a hand-built value is mapped to `Raw(payload)`
//!   (the variant match has no arm for `Unknown`).
//! * changed code: the payload view is selected by the on-the-wire type & code
//!   values the `Icmpv6Type` stands for (the same table `Icmpv6Slice` uses), so
//!   the hand-built value gets the Neighbor Solicitation payload view.
//!
//! For every `Icmpv6Type` that can come out of decoding bytes the result is
//! identical before and after the change (checked below as well).

use etherparse::icmpv6::*;
use etherparse::*;

#[test]
fn hand_built_unknown_with_assigned_type_and_code() {
    // 16 bytes target address + one source link-layer address option
    let mut payload = [0u8; 16 + 8];
    payload[..16].copy_from_slice(&[0xfe, 0x80, 0, 0, 0, 0, 0, 0, 0, 0, 0, 0, 0, 0, 0, 1]);
    payload[16..].copy_from_slice(&[1, 1, 1, 2, 3, 4, 5, 6]);

    // not producible by any decoder of the crate (135/0 decodes to
    // `Icmpv6Type::NeighborSolicitation`)
    let hand_built = Icmpv6Type::Unknown {
        type_u8: TYPE_NEIGHBOR_SOLICITATION,
        code_u8: 0,
        bytes5to8: [0; 4],
    };

    // new: typed view (old: `Icmpv6PayloadSlice::Raw(&payload)`)
    assert_eq!(
        Icmpv6PayloadSlice::from_slice(&hand_built, &payload).unwrap(),
        Icmpv6PayloadSlice::NeighborSolicitation(
            NeighborSolicitationPayloadSlice::from_slice(&payload).unwrap()
        )
    );
    assert_eq!(
        hand_built.payload_slice(&payload).unwrap(),
        Icmpv6Type::NeighborSolicitation
            .payload_slice(&payload)
            .unwrap()
    );

    // new: the fixed part of a Neighbor Solicitation (16 bytes) is required
    // (old: `Ok(Raw(..))` for every length)
    assert!(Icmpv6PayloadSlice::from_slice(&hand_built, &payload[..15]).is_err());
}

#[test]
fn decoded_values_are_unaffected() {
    // Everything that actually comes out of decoding bytes behaves the same
    // with and without the change: unassigned type / unassigned code fall
    // back to Raw, assigned ones get their typed view, and both entry points
    // (slice based & value based) agree.
    let mut packet = [0u8; 8 + 32];
    for type_u8 in 0..=255u8 {
        for code_u8 in [0u8, 1, 2, 7, 11, 200, 255] {
            packet[0] = type_u8;
            packet[1] = code_u8;
            let slice = Icmpv6Slice::from_slice(&packet).unwrap();
            let via_slice = slice.payload_slice().unwrap();
            let via_type = slice.icmp_type().payload_slice(slice.payload()).unwrap();
            assert_eq!(via_slice, via_type);
            if let Icmpv6Type::Unknown { .. } = slice.icmp_type() {
                assert_eq!(via_type, Icmpv6PayloadSlice::Raw(slice.payload()));
            } else {
                assert_ne!(via_type, Icmpv6PayloadSlice::Raw(slice.payload()));
            }
        }
    }
}
