//! Demo for seed C10i: `PacketBuilder` finalizes & validates all headers
//! BEFORE it touches the output.
//!
//! Unchanged code: link & VLAN headers (and for some errors also the IP
//! header) are already written when the payload length / ICMPv6-in-IPv4
//! checks fail, and `write_to_slice` looks at the size of the target slice
//! before it looks at the packet.
//!
//! Changed code: a configuration that can not be encoded produces the same
//! error value as before, but no output at all, and the "can not be encoded"
//! error wins over "the output can not take the bytes" (`Space` / `Io`).
//!
//! Packets that CAN be encoded are byte for byte the same as before (see the
//! last test, which passes with and without the change).

use etherparse::err::packet::{BuildSliceWriteError, BuildVecWriteError, BuildWriteError};
use etherparse::err::{ValueTooBigError, ValueType};
use etherparse::*;

/// One byte more than fits into the IPv4 total length field
/// (20 bytes IPv4 header + 8 bytes UDP header + payload <= 65535).
const TOO_BIG_UDP_V4_PAYLOAD: usize = 65535 - 20 - 8 + 1;

fn eth_vlan_ipv4_udp() -> PacketBuilderStep<UdpHeader> {
    PacketBuilder::ethernet2([1, 2, 3, 4, 5, 6], [7, 8, 9, 10, 11, 12])
        .single_vlan(VlanId::try_new(0x123).unwrap())
        .ipv4([192, 168, 1, 1], [192, 168, 1, 2], 20)
        .udp(21, 1234)
}

fn expected_len_err() -> ValueTooBigError<usize> {
    ValueTooBigError {
        actual: 8 + TOO_BIG_UDP_V4_PAYLOAD,
        max_allowed: 65535 - 20,
        value_type: ValueType::Ipv4PayloadLength,
    }
}

/// old: the Vec contains the 14 bytes ethernet II header + 4 bytes VLAN header
///      after the error
/// new: the Vec is untouched
#[test]
fn too_big_payload_leaves_vec_untouched() {
    let payload = vec![0u8; TOO_BIG_UDP_V4_PAYLOAD];
    let mut out = vec![0xAA, 0xBB];

    let err = eth_vlan_ipv4_udp()
        .write_to_vec(&mut out, &payload)
        .unwrap_err();

    // same error value in the old & new code
    assert_eq!(err, BuildVecWriteError::PayloadLen(expected_len_err()));
    // difference: nothing was appended
    assert_eq!(out, [0xAA, 0xBB]);
}

/// old: the 14 bytes ethernet II header and the 20 bytes IPv4 header are
///      written before the ICMPv6 checksum calculation fails
/// new: nothing is written
#[test]
fn icmpv6_in_ipv4_leaves_vec_untouched() {
    let mut out = Vec::new();
    let err = PacketBuilder::ethernet2([1, 2, 3, 4, 5, 6], [7, 8, 9, 10, 11, 12])
        .ipv4([192, 168, 1, 1], [192, 168, 1, 2], 20)
        .icmpv6_echo_request(1, 2)
        .write_to_vec(&mut out, &[1, 2, 3, 4])
        .unwrap_err();

    // same error value in the old & new code
    assert_eq!(err, BuildVecWriteError::Icmpv6InIpv4);
    // difference: nothing was appended
    assert!(out.is_empty());
}

/// A writer that accepts nothing & counts how often it was asked to.
struct Refusing {
    calls: usize,
}

impl std::io::Write for Refusing {
    fn write(&mut self, _buf: &[u8]) -> std::io::Result<usize> {
        self.calls += 1;
        Err(std::io::Error::new(std::io::ErrorKind::Other, "refused"))
    }
    fn flush(&mut self) -> std::io::Result<()> {
        Ok(())
    }
}

/// Two faults at once: the payload does not fit the IPv4 total length field
/// AND the writer refuses every byte.
///
/// old: the ethernet II header is written first -> `BuildWriteError::Io`
/// new: the packet is checked first -> `BuildWriteError::PayloadLen`, the
///      writer is never called
#[test]
fn content_error_wins_over_io_error() {
    let payload = vec![0u8; TOO_BIG_UDP_V4_PAYLOAD];
    let mut writer = Refusing { calls: 0 };

    let err = eth_vlan_ipv4_udp()
        .write(&mut writer, &payload)
        .unwrap_err();

    assert!(matches!(err, BuildWriteError::PayloadLen(_)));
    assert_eq!(err.payload_len(), Some(&expected_len_err()));
    assert_eq!(writer.calls, 0);
}

/// Two faults at once: the payload does not fit the IPv4 total length field
/// AND the target slice is shorter than `size(payload.len())`.
///
/// old: `Space(size(payload.len()))` (a size that can never be written)
/// new: `PayloadLen(..)`, slice untouched
#[test]
fn content_error_wins_over_space_error() {
    let payload = vec![0u8; TOO_BIG_UDP_V4_PAYLOAD];
    let mut buffer = [0x55u8; 64];

    let err = eth_vlan_ipv4_udp()
        .write_to_slice(&mut buffer, &payload)
        .unwrap_err();

    assert_eq!(err, BuildSliceWriteError::PayloadLen(expected_len_err()));
    assert_eq!(buffer, [0x55u8; 64]);
}

/// Even with enough room the slice is no longer scribbled on.
///
/// old: first 18 bytes of the slice hold the ethernet II & VLAN header
/// new: slice untouched
#[test]
fn too_big_payload_leaves_slice_untouched() {
    let payload = vec![0u8; TOO_BIG_UDP_V4_PAYLOAD];
    let builder = eth_vlan_ipv4_udp();
    let mut buffer = vec![0x55u8; builder.size(payload.len())];

    let err = builder.write_to_slice(&mut buffer, &payload).unwrap_err();

    // same error value in the old & new code
    assert_eq!(err, BuildSliceWriteError::PayloadLen(expected_len_err()));
    // difference: nothing was written
    assert!(buffer.iter().all(|b| 0x55 == *b));
}

/// Not a difference (passes with & without the change): packets that can be
/// encoded are unchanged, also exactly at the limit of the length field, and
/// a too small slice for an encodable packet is still reported as `Space`.
#[test]
fn encodable_packets_are_unchanged() {
    let payload = vec![0xA5u8; TOO_BIG_UDP_V4_PAYLOAD - 1];
    let size = eth_vlan_ipv4_udp().size(payload.len());
    assert_eq!(size, 14 + 4 + 65535);

    let mut via_write = Vec::new();
    eth_vlan_ipv4_udp().write(&mut via_write, &payload).unwrap();
    let mut via_vec = Vec::new();
    eth_vlan_ipv4_udp()
        .write_to_vec(&mut via_vec, &payload)
        .unwrap();
    let mut via_slice = vec![0u8; size + 3];
    assert_eq!(
        Ok(size),
        eth_vlan_ipv4_udp().write_to_slice(&mut via_slice, &payload)
    );
    assert_eq!(via_write.len(), size);
    assert_eq!(via_write, via_vec);
    assert_eq!(via_write[..], via_slice[..size]);

    let parsed = PacketHeaders::from_ethernet_slice(&via_write).unwrap();
    match parsed.net {
        Some(NetHeaders::Ipv4(ip, _)) => assert_eq!(ip.total_len, 65535),
        _ => panic!("ipv4 expected"),
    }
    match parsed.transport {
        Some(TransportHeader::Udp(udp)) => assert_eq!(udp.length, 65535 - 20),
        _ => panic!("udp expected"),
    }
    assert_eq!(parsed.payload.slice(), &payload[..]);

    // too small slice, encodable packet -> still `Space(size)`
    let mut small = vec![0u8; size - 1];
    assert_eq!(
        Err(BuildSliceWriteError::Space(size)),
        eth_vlan_ipv4_udp().write_to_slice(&mut small, &payload)
    );
}
